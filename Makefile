# /verif build: everything is built offline from files on disk.
GOENV = PATH=/opt/veriftools/go1.26.8/bin:$$PATH GOFLAGS=-mod=mod GOPROXY=off GOSUMDB=off GOTOOLCHAIN=local

.PHONY: setup engine warm clean
setup: engine warm

engine:
	cd engine && $(GOENV) go build -o ../bin/symgo ./cmd/symgo

# warm the Go build cache for the native replays (test binaries of the packages the harnesses live in)
warm:
	-cd /repo && $(GOENV) go build ./... >/dev/null 2>&1
	-cd /repo && $(GOENV) go test -vet=off -count=1 -run '^$$' ./pkg/state/nodepoolhealth ./pkg/scheduling ./pkg/apis/v1 ./pkg/cloudprovider ./pkg/utils/nodepool ./pkg/controllers/state ./pkg/controllers/disruption ./pkg/controllers/provisioning/scheduling ./pkg/controllers/nodeclaim/... ./pkg/controllers/node/... >/dev/null 2>&1

clean:
	rm -rf bin/symgo replays/run-*
