//go:build verif

// verif:dir pkg/controllers/disruption
//
// C18 (whole simulation) — disruption.SimulateScheduling end to end (DeepCopyNodes, GetPendingPods, NewScheduler,
// Solve, TruncateInstanceTypes) on a real cluster state: nothing reachable from the live cluster state or from the
// provider's instance types and offerings is written, no API object is written, and node usage, deletion marks and
// nominations read the same afterwards. Every heap cell reachable from the cluster state and the catalogue is frozen
// before the call; a write to one of them is reported with its call stack.
//
// verif:assume C18: one candidate node with one reschedulable pod of symbolic cpu, one other initialized node of symbolic allocatable cpu, one pending pod of symbolic cpu, one NodePool, 2 instance types x {on-demand, spot} with symbolic availability; the InstanceType.allocatableOfferings / sync.Once memo fields are computed before freezing (they are caches of pure functions)
// verif:pure ^sigs\.k8s\.io/karpenter/pkg/utils/resources\.(Fits|Cmp)$
// verif:pure ^\(\*sigs\.k8s\.io/karpenter/pkg/scheduling\.Requirement\)\.(Has|Len|Operator)$
// verif:nondeterministic the scheduler breaks ties between equally good domains, NodeClaims and instance types by Go map iteration order; a native run may take another admissible behaviour than the symbolic path
// verif:assume sample comparison against the real build is restricted to the verdict for these harnesses: the real code breaks ties by randomised map iteration order, the engine iterates in insertion order; violations are always confirmed natively

package disruption

import (
	"context"
	"time"

	"github.com/awslabs/operatorpkg/status"
	corev1 "k8s.io/api/core/v1"
	"k8s.io/apimachinery/pkg/api/resource"
	metav1 "k8s.io/apimachinery/pkg/apis/meta/v1"
	k8stypes "k8s.io/apimachinery/pkg/types"

	v1 "sigs.k8s.io/karpenter/pkg/apis/v1"
	"sigs.k8s.io/karpenter/pkg/cloudprovider"
	"sigs.k8s.io/karpenter/pkg/controllers/provisioning"
	"sigs.k8s.io/karpenter/pkg/controllers/state"
	opopts "sigs.k8s.io/karpenter/pkg/operator/options"
	"sigs.k8s.io/karpenter/pkg/scheduling"
	"sigs.k8s.io/karpenter/pkg/utils/pdb"
	"sigs.k8s.io/karpenter/pkg/verifrt"
	"sigs.k8s.io/karpenter/pkg/verifrt/stubs"
)

func uType(name string, cpu string) *cloudprovider.InstanceType {
	var ofs cloudprovider.Offerings
	for k, ct := range []string{v1.CapacityTypeOnDemand, v1.CapacityTypeSpot} {
		ofs = append(ofs, &cloudprovider.Offering{Available: verifrt.Bool(name + "." + ct + ".available"), Price: float64(2 - k), Requirements: scheduling.NewRequirements(
			scheduling.NewRequirement(corev1.LabelTopologyZone, corev1.NodeSelectorOpIn, "zone-1"),
			scheduling.NewRequirement(v1.CapacityTypeLabelKey, corev1.NodeSelectorOpIn, ct),
		)})
	}
	return &cloudprovider.InstanceType{
		Name: name,
		Requirements: scheduling.NewRequirements(
			scheduling.NewRequirement(corev1.LabelInstanceTypeStable, corev1.NodeSelectorOpIn, name),
			scheduling.NewRequirement(corev1.LabelTopologyZone, corev1.NodeSelectorOpIn, "zone-1"),
			scheduling.NewRequirement(v1.CapacityTypeLabelKey, corev1.NodeSelectorOpIn, v1.CapacityTypeOnDemand, v1.CapacityTypeSpot),
			scheduling.NewRequirement(corev1.LabelArchStable, corev1.NodeSelectorOpIn, "amd64"),
			scheduling.NewRequirement(corev1.LabelOSStable, corev1.NodeSelectorOpIn, "linux"),
		),
		Offerings: ofs,
		Capacity:  corev1.ResourceList{corev1.ResourceCPU: resource.MustParse(cpu), corev1.ResourceMemory: resource.MustParse("8Gi"), corev1.ResourcePods: resource.MustParse("110")},
		Overhead:  &cloudprovider.InstanceTypeOverhead{},
	}
}

func uNode(name, pid string, alloc corev1.ResourceList, now time.Time) (*corev1.Node, *v1.NodeClaim) {
	node := stubs.Node(name, pid, corev1.ConditionTrue)
	node.Labels = map[string]string{
		corev1.LabelInstanceTypeStable: "it-l", v1.CapacityTypeLabelKey: v1.CapacityTypeOnDemand, corev1.LabelTopologyZone: "zone-1",
		v1.NodePoolLabelKey: "pool-1", v1.NodeRegisteredLabelKey: "true", v1.NodeInitializedLabelKey: "true",
		corev1.LabelHostname: name, corev1.LabelArchStable: "amd64", corev1.LabelOSStable: "linux",
	}
	node.Status.Capacity, node.Status.Allocatable = alloc, alloc
	nc := stubs.NodeClaim("claim-" + name)
	for k, v := range node.Labels {
		nc.Labels[k] = v
	}
	nc.Status.ProviderID, nc.Status.NodeName = pid, name
	nc.Status.Capacity, nc.Status.Allocatable = alloc, alloc
	stubs.SetCondition(nc, v1.ConditionTypeInitialized, metav1.ConditionTrue, now.Add(-time.Hour))
	stubs.SetCondition(nc, v1.ConditionTypeConsolidatable, metav1.ConditionTrue, now.Add(-time.Minute))
	return node, nc
}

func VerifC18_WholeSimulationHasNoSideEffects() {
	ctx := opopts.ToContext(context.Background(), &opopts.Options{IgnoreDRARequests: true, MinValuesPolicy: opopts.MinValuesPolicyStrict})
	now := time.Unix(1700000000, 0)
	clk := &stubs.Clock{Frozen: true}
	clk.Set(now)
	kc := &stubs.Client{Clock: clk}
	cp := stubs.ManagedProvider()
	cluster := state.NewCluster(clk, kc, cp)
	rec := &stubs.Recorder{}
	its := []*cloudprovider.InstanceType{uType("it-m", "4"), uType("it-l", "8")}
	cp.InstanceTypes = its
	// what the provider handed out, before anything of Karpenter has looked at it
	var offered [][]*cloudprovider.Offering
	var offeredAvailable [][]bool
	for _, it := range its {
		offered = append(offered, append([]*cloudprovider.Offering{}, it.Offerings...))
		var av []bool
		for _, o := range it.Offerings {
			av = append(av, o.Available)
		}
		offeredAvailable = append(offeredAvailable, av)
	}
	pool := &v1.NodePool{}
	pool.Name, pool.UID = "pool-1", "uid-pool-1"
	pool.Spec.Template.Spec.NodeClassRef = &v1.NodeClassReference{Group: stubs.NodeClassGroup, Kind: stubs.NodeClassKind, Name: "default"}
	pool.StatusConditions().SetTrue(status.ConditionReady)
	kc.Pools = append(kc.Pools, pool)

	full := corev1.ResourceList{corev1.ResourceCPU: resource.MustParse("8"), corev1.ResourceMemory: resource.MustParse("8Gi"), corev1.ResourcePods: resource.MustParse("110")}
	otherAlloc := corev1.ResourceList{corev1.ResourceCPU: verifrt.MilliQuantity("other.cpu", 0, 8000), corev1.ResourceMemory: resource.MustParse("8Gi"), corev1.ResourcePods: resource.MustParse("110")}
	node1, nc1 := uNode("node-1", "verif://i-1", full, now)
	node2, nc2 := uNode("node-2", "verif://i-2", otherAlloc, now)
	kc.Claims = append(kc.Claims, nc1, nc2)
	kc.Nodes = append(kc.Nodes, node1, node2)
	cluster.UpdateNodeClaim(nc1)
	cluster.UpdateNodeClaim(nc2)
	verifrt.Assert(cluster.UpdateNode(ctx, node1) == nil && cluster.UpdateNode(ctx, node2) == nil, "nodes are accepted by cluster state")
	mk := func(name, nodeName string) *corev1.Pod {
		p := &corev1.Pod{}
		p.Name, p.Namespace = name, "default"
		p.UID = k8stypes.UID("uid-" + name)
		p.OwnerReferences = []metav1.OwnerReference{{APIVersion: "apps/v1", Kind: "ReplicaSet", Name: "rs"}}
		p.Spec.Containers = []corev1.Container{{Name: "main", Resources: corev1.ResourceRequirements{Requests: corev1.ResourceList{corev1.ResourceCPU: verifrt.MilliQuantity(name+".cpu", 1, 8000)}},
			Ports: []corev1.ContainerPort{{HostPort: 8080, ContainerPort: 8080, Protocol: corev1.ProtocolTCP}}}}
		if nodeName == "" {
			p.Status.Phase = corev1.PodPending
			p.Status.Conditions = []corev1.PodCondition{{Type: corev1.PodScheduled, Status: corev1.ConditionFalse, Reason: corev1.PodReasonUnschedulable}}
			p.Spec.Containers[0].Ports = []corev1.ContainerPort{{HostPort: 9090, ContainerPort: 9090, Protocol: corev1.ProtocolTCP}}
		} else {
			p.Spec.NodeName = nodeName
			p.Status.Phase = corev1.PodRunning
			p.Status.Conditions = []corev1.PodCondition{{Type: corev1.PodScheduled, Status: corev1.ConditionTrue}}
		}
		kc.Pods = append(kc.Pods, p)
		return p
	}
	mk("pod-1", "node-1")
	mk("pending-1", "")
	for _, p := range kc.Pods {
		verifrt.Assert(cluster.UpdatePod(ctx, p) == nil, "the pod is accepted by cluster state")
	}
	prov := provisioning.NewProvisioner(kc, rec, cp, cluster, clk, nil, nil)
	queue := NewQueue(kc, rec, cluster, clk, prov)
	limits, err := pdb.NewLimits(ctx, kc)
	verifrt.Assert(err == nil, "PDB limits are built")
	itMap := map[string]*cloudprovider.InstanceType{}
	for _, it := range its {
		itMap[it.Name] = it
		_ = it.Allocatable() // memoised
	}
	var live1, live2 *state.StateNode
	for n := range cluster.Nodes() {
		if n.Name() == "node-1" {
			live1 = n
		} else {
			live2 = n
		}
	}
	cand, cerr := NewCandidate(ctx, kc, rec, clk, live1, limits, map[string]*v1.NodePool{"pool-1": pool}, map[string]map[string]*cloudprovider.InstanceType{"pool-1": itMap}, queue, GracefulDisruptionClass)
	if cerr != nil {
		return
	}
	snap := func(n *state.StateNode) (resource.Quantity, bool, bool) {
		q := n.PodRequests()[corev1.ResourceCPU]
		return q.DeepCopy(), n.MarkedForDeletion(), n.Nominated(clk)
	}
	c1, m1, n1 := snap(live1)
	c2, m2, n2 := snap(live2)
	writes := len(kc.Log)
	state0 := cluster.ConsolidationState()

	verifrt.Freeze(cluster)
	for _, it := range its {
		verifrt.Freeze(it)
	}
	// the environment models keep their own books (call log, event list): those are not Karpenter state
	verifrt.Thaw(kc)
	verifrt.Thaw(rec)
	verifrt.Thaw(cp)
	results, serr := SimulateScheduling(ctx, kc, cluster, prov, clk, rec, nil, cand)
	if serr != nil {
		return
	}
	verifrt.Reach("simulated")
	if len(results.NewNodeClaims) > 0 {
		verifrt.Reach("new-nodeclaim")
	}
	for _, en := range results.ExistingNodes {
		if len(en.Pods) > 0 {
			verifrt.Reach("placed-on-copy")
		}
	}
	a1, b1, d1 := snap(live1)
	a2, b2, d2 := snap(live2)
	verifrt.Assert(a1.Cmp(c1) == 0 && a2.Cmp(c2) == 0, "a simulation does not change the requested resources tracked for live nodes")
	verifrt.Assert(b1 == m1 && b2 == m2 && d1 == n1 && d2 == n2, "a simulation changes neither deletion marks nor nominations")
	portFree := func(n *state.StateNode, port int32) bool {
		probe := &corev1.Pod{}
		probe.Name, probe.Namespace = "probe", "default"
		return n.HostPortUsage().Conflicts(probe, []scheduling.HostPort{{Port: port, Protocol: corev1.ProtocolTCP}}) == nil
	}
	verifrt.Assert(portFree(live1, 9090) && portFree(live2, 9090) && !portFree(live1, 8080), "a simulation does not change the host ports tracked for live nodes")
	verifrt.Assert(cluster.ConsolidationState() == state0, "a simulation does not touch the consolidation state")
	for _, call := range kc.Log[writes:] {
		verifrt.Assert(call.Verb == "get" || call.Verb == "list", "a simulation writes no API object")
	}
	same := true
	for k, it := range its {
		same = same && len(it.Offerings) == len(offered[k])
		for j := range offered[k] {
			if j < len(it.Offerings) {
				same = same && it.Offerings[j] == offered[k][j]
			}
			av := offered[k][j].Available == offeredAvailable[k][j]
			same = same && av && offered[k][j].ReservationCapacity == 0
		}
	}
	verifrt.Assert(same, "the provider's instance types list the same offerings, in the same order and with the same availability, after a simulation")
}
