//go:build verif

// verif:dir pkg/controllers/provisioning/scheduling
//
// C18 — a scheduling simulation changes nothing observable: the cluster state (node usage, host ports, deletion
// marks, nominations) is unchanged by placements made on the simulation's copies, and the cloud provider's
// instance types and offerings are unmodified by evaluating and committing placements on new NodeClaims
// (DESIGN §7 C18). The engine additionally watches every write: cells reachable from the live cluster state and
// from the instance-type catalogue are frozen before the simulation steps run.
//
// verif:assume C18: one tracked node with one bound pod, one pending pod with symbolic requests and an optional host port; 2 instance types x 2 offerings; the memoised InstanceType.allocatableOfferings / sync.Once fields are benign and computed before freezing
// verif:assume C18: whole SimulateScheduling passes (API listing) are outside; the steps exercised are DeepCopyNodes, NewExistingNode, ExistingNode.CanAdd/Add, NodeClaim.CanAdd/Add, FinalizeScheduling, InstanceTypes.Truncate/OrderByPrice and Results.Record
// verif:pure ^sigs\.k8s\.io/karpenter/pkg/utils/resources\.(Fits|Cmp)$

package scheduling

import (
	"context"
	"time"

	corev1 "k8s.io/api/core/v1"
	metav1 "k8s.io/apimachinery/pkg/apis/meta/v1"
	"k8s.io/apimachinery/pkg/api/resource"

	v1 "sigs.k8s.io/karpenter/pkg/apis/v1"
	"sigs.k8s.io/karpenter/pkg/cloudprovider"
	"sigs.k8s.io/karpenter/pkg/controllers/state"
	opopts "sigs.k8s.io/karpenter/pkg/operator/options"
	"sigs.k8s.io/karpenter/pkg/scheduling"
	"sigs.k8s.io/karpenter/pkg/utils/resources"
	"sigs.k8s.io/karpenter/pkg/verifrt"
	"sigs.k8s.io/karpenter/pkg/verifrt/stubs"
)

func sPod(name string, cpu resource.Quantity, hostPort int32) *corev1.Pod {
	p := &corev1.Pod{}
	p.Name, p.Namespace = name, "default"
	p.Status.Phase = corev1.PodRunning
	c := corev1.Container{Name: "main", Resources: corev1.ResourceRequirements{Requests: corev1.ResourceList{corev1.ResourceCPU: cpu}}}
	if hostPort != 0 {
		c.Ports = []corev1.ContainerPort{{HostPort: hostPort, ContainerPort: hostPort, Protocol: corev1.ProtocolTCP}}
	}
	p.Spec.Containers = []corev1.Container{c}
	return p
}

func sPortFree(n *state.StateNode, port int32) bool {
	probe := &corev1.Pod{}
	probe.Name, probe.Namespace = "probe", "default"
	return n.HostPortUsage().Conflicts(probe, []scheduling.HostPort{{Port: port, Protocol: corev1.ProtocolTCP}}) == nil
}

func VerifC18_SimulationOnExistingNodes() {
	ctx := opopts.ToContext(context.Background(), &opopts.Options{})
	clk := &stubs.Clock{Frozen: true}
	clk.Set(time.Unix(1700000000, 0))
	kc := &stubs.Client{Clock: clk}
	cluster := state.NewCluster(clk, kc, stubs.ManagedProvider())
	const pid = "verif://i-1"
	alloc := corev1.ResourceList{corev1.ResourceCPU: verifrt.Quantity("allocatable.cpu", 0, 1000000), corev1.ResourcePods: resource.MustParse("110")}
	nc := stubs.NodeClaim("nc-1")
	nc.Status.ProviderID, nc.Status.Allocatable, nc.Status.Capacity = pid, alloc, alloc
	node := stubs.Node("node-1", pid, corev1.ConditionTrue)
	node.Labels = map[string]string{corev1.LabelInstanceTypeStable: "it-1", corev1.LabelTopologyZone: "zone-1", v1.NodePoolLabelKey: "pool-1", v1.NodeRegisteredLabelKey: "true", v1.NodeInitializedLabelKey: "true"}
	node.Status.Allocatable, node.Status.Capacity = alloc, alloc
	bound := sPod("bound-1", verifrt.Quantity("bound.cpu", 0, 1000000), 8080)
	bound.Spec.NodeName = "node-1"
	kc.Claims, kc.Nodes, kc.Pods = append(kc.Claims, nc), append(kc.Nodes, node), append(kc.Pods, bound)
	cluster.UpdateNodeClaim(nc)
	verifrt.Assert(cluster.UpdateNode(ctx, node) == nil, "node tracked")
	var live *state.StateNode
	for n := range cluster.Nodes() {
		live = n
	}
	beforeCPU := live.PodRequests()[corev1.ResourceCPU]
	beforeCPU = beforeCPU.DeepCopy()
	marked, nominated := live.MarkedForDeletion(), live.Nominated(clk)

	// the simulation works on copies ...
	copies := cluster.DeepCopyNodes()
	verifrt.Freeze(live)
	s := &Scheduler{topology: &Topology{}, clock: clk, remainingResources: map[string]corev1.ResourceList{}, cluster: cluster}
	s.calculateExistingNodeClaims(ctx, copies, nil, map[string]*v1.NodePool{}, false)
	en := s.existingNodes[0]
	port := int32(0)
	if verifrt.Choice("pending.hostPort", 0, 1) == 1 {
		port = 9090
	}
	x := sPod("pending-1", verifrt.Quantity("pending.cpu", 0, 1000000), port)
	pd := &PodData{Requests: resources.RequestsForPods(x), Requirements: scheduling.NewPodRequirements(x), StrictRequirements: scheduling.NewStrictPodRequirements(x)}
	if reqs, _, err := en.CanAdd(ctx, x, pd, nil, nil); err == nil {
		en.Add(ctx, x, pd, reqs, nil, nil)
		verifrt.Reach("placed-on-copy")
	}
	// ... and leaves the live state alone
	afterCPU := live.PodRequests()[corev1.ResourceCPU]
	verifrt.Assert(afterCPU.Cmp(beforeCPU) == 0, "a simulated placement does not change the requested resources tracked for the live node")
	verifrt.Assert(sPortFree(live, 9090) && !sPortFree(live, 8080), "a simulated placement does not change the host ports tracked for the live node")
	verifrt.Assert(live.MarkedForDeletion() == marked && live.Nominated(clk) == nominated, "a simulation changes neither deletion marks nor nominations")
	verifrt.Assert(len(kc.Log) == 0 || kc.Calls("create", "NodeClaim")+kc.Calls("patch", "Node")+kc.Calls("update", "Node")+kc.Calls("delete", "NodeClaim") == 0, "a simulation writes no API object")
}

func VerifC18_SimulationOnNewNodeClaims() {
	ctx := opopts.ToContext(context.Background(), &opopts.Options{})
	mk := func(name string, price float64) *cloudprovider.InstanceType {
		capacity := corev1.ResourceList{corev1.ResourceCPU: verifrt.Quantity(name+".cpu", 0, 1000000), corev1.ResourcePods: resource.MustParse("110")}
		return &cloudprovider.InstanceType{Name: name, Capacity: capacity, Overhead: &cloudprovider.InstanceTypeOverhead{},
			Requirements: scheduling.NewRequirements(
				scheduling.NewRequirement(corev1.LabelInstanceTypeStable, corev1.NodeSelectorOpIn, name),
				scheduling.NewRequirement(corev1.LabelTopologyZone, corev1.NodeSelectorOpIn, "zone-1", "zone-2"),
				scheduling.NewRequirement(v1.CapacityTypeLabelKey, corev1.NodeSelectorOpIn, v1.CapacityTypeOnDemand)),
			Offerings: cloudprovider.Offerings{
				{Available: true, Price: price, Requirements: scheduling.NewRequirements(scheduling.NewRequirement(corev1.LabelTopologyZone, corev1.NodeSelectorOpIn, "zone-1"), scheduling.NewRequirement(v1.CapacityTypeLabelKey, corev1.NodeSelectorOpIn, v1.CapacityTypeOnDemand))},
				{Available: verifrt.Choice(name+".zone2.available", 0, 1) == 1, Price: price + 1, Requirements: scheduling.NewRequirements(scheduling.NewRequirement(corev1.LabelTopologyZone, corev1.NodeSelectorOpIn, "zone-2"), scheduling.NewRequirement(v1.CapacityTypeLabelKey, corev1.NodeSelectorOpIn, v1.CapacityTypeOnDemand))},
			}}
	}
	catalogue := cloudprovider.InstanceTypes{mk("it-b", 2), mk("it-a", 1)} // the provider's own slice, dearer type first
	for _, it := range catalogue {
		it.AllocatableOfferingsList() // benign memoisation happens before the catalogue is frozen
	}
	names := []string{catalogue[0].Name, catalogue[1].Name}
	verifrt.Freeze(catalogue)
	n := &NodeClaim{topology: &Topology{}, hostname: "host-1", reservedOfferings: cloudprovider.Offerings{}, reservationManager: NewReservationManager(nil),
		daemonOverheadGroups: []DaemonOverheadGroup{{InstanceTypes: catalogue, HostPortUsage: scheduling.NewHostPortUsage()}}}
	n.NodePoolName = "pool-1"
	n.InstanceTypeOptions = append(cloudprovider.InstanceTypes{}, catalogue...) // the scheduler's own copy of the list
	n.Requirements = scheduling.NewRequirements(scheduling.NewRequirement(corev1.LabelHostname, corev1.NodeSelectorOpIn, "host-1"))
	x := sPod("pending-1", verifrt.Quantity("pending.cpu", 0, 1000000), 0)
	if verifrt.Choice("pending.zone", 0, 1) == 1 {
		x.Spec.NodeSelector = map[string]string{corev1.LabelTopologyZone: "zone-2"}
	}
	pd := &PodData{Requests: resources.RequestsForPods(x), Requirements: scheduling.NewPodRequirements(x), StrictRequirements: scheduling.NewStrictPodRequirements(x)}
	if reqs, its, ofs, _, err := n.CanAdd(ctx, x, pd, false, nil); err == nil {
		n.Add(ctx, x, pd, reqs, its, ofs, nil, nil)
		n.FinalizeScheduling()
		_, _ = n.InstanceTypeOptions.Truncate(ctx, n.Requirements, 1)
		verifrt.Reach("placed")
	}
	verifrt.Assert(len(catalogue) == 2 && catalogue[0].Name == names[0] && catalogue[1].Name == names[1], "the provider's instance-type list keeps its order")
	for _, it := range catalogue {
		verifrt.Assert(len(it.Offerings) == 2 && it.Offerings[0].Available && it.Requirements.Get(corev1.LabelTopologyZone).Len() == 2 && !it.Requirements.Has(corev1.LabelHostname),
			"instance types and offerings are unmodified by evaluating and committing a placement")
	}
	_ = metav1.Now
}
