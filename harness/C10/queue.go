//go:build verif

// verif:dir pkg/controllers/node/termination/terminator
//
// C10 — while draining, pods are removed only through the eviction API (so PDBs apply), pods with an active
// do-not-disrupt annotation, static pods and pods tolerating the disruption taint are not evicted, and a direct
// delete happens only under a node deadline, no earlier than the deadline minus the pod's own grace period and
// never with a zero grace period; a queued deadline is never replaced by a later one; graceful eviction goes
// tier by tier (DESIGN §7 C10).
//
// verif:assume C10: one pod per queue reconcile, up to 3 pods per drain pass; instants between 1970 and 2043, |deadline - now| < 48 days (Duration.Seconds() is exact there), pod grace periods 0..86400 s
// verif:assume C10: for a pod already terminating "its own grace period" is its deletionTimestamp; the API server's PDB enforcement itself is outside this check

package terminator

import (
	"context"
	"strconv"
	"time"

	corev1 "k8s.io/api/core/v1"
	metav1 "k8s.io/apimachinery/pkg/apis/meta/v1"
	"k8s.io/apimachinery/pkg/types"

	v1 "sigs.k8s.io/karpenter/pkg/apis/v1"
	"sigs.k8s.io/karpenter/pkg/verifrt"
	"sigs.k8s.io/karpenter/pkg/verifrt/stubs"
)

type qPod struct {
	pod              *corev1.Pod
	terminal         bool
	terminating      bool
	deletionTime     time.Time
	tgps             *int64
	dnd              int // 0 absent, 1 "true", 2 duration, 3 garbage
	dndDuration      time.Duration
	started          bool
	startTime        time.Time
	tolerates, static bool
}

func qGenPod(name string) *qPod {
	p := &corev1.Pod{}
	p.Name, p.Namespace = name, "default"
	p.UID = types.UID("uid-" + name)
	p.Spec.NodeName = "node-1"
	p.Status.Phase = corev1.PodRunning
	q := &qPod{pod: p}
	if verifrt.Choice(name+".terminal", 0, 1) == 1 {
		p.Status.Phase = corev1.PodSucceeded
		q.terminal = true
	}
	if verifrt.Choice(name+".terminating", 0, 1) == 1 {
		q.terminating = true
		q.deletionTime = verifrt.Time(name + ".deletionTimestamp")
		p.DeletionTimestamp = &metav1.Time{Time: q.deletionTime}
	}
	if verifrt.Choice(name+".tgps.set", 0, 1) == 1 {
		g := int64(verifrt.IntRange(name+".tgps", 0, 86400))
		q.tgps = &g
		p.Spec.TerminationGracePeriodSeconds = &g
	}
	q.dnd = verifrt.Choice(name+".doNotDisrupt", 0, 3)
	switch q.dnd {
	case 1:
		p.Annotations = map[string]string{v1.DoNotDisruptAnnotationKey: "true"}
	case 2:
		q.dndDuration = verifrt.Duration(name+".doNotDisrupt.duration", 1, 30*24*time.Hour)
		p.Annotations = map[string]string{v1.DoNotDisruptAnnotationKey: verifrt.DurationStringOf(q.dndDuration)}
		if verifrt.Choice(name+".started", 0, 1) == 1 {
			q.started = true
			q.startTime = verifrt.Time(name + ".startTime")
			p.Status.StartTime = &metav1.Time{Time: q.startTime}
		}
	case 3:
		p.Annotations = map[string]string{v1.DoNotDisruptAnnotationKey: "soon"}
	}
	// tolerating the disruption taint: by its key, or by a toleration for every taint (empty key, Exists)
	switch verifrt.Choice(name+".tolerates", 0, 2) {
	case 1:
		q.tolerates = true
		p.Spec.Tolerations = []corev1.Toleration{{Key: v1.DisruptedTaintKey, Operator: corev1.TolerationOpExists}}
	case 2:
		q.tolerates = true
		p.Spec.Tolerations = []corev1.Toleration{{Operator: corev1.TolerationOpExists}}
	}
	if verifrt.Choice(name+".static", 0, 1) == 1 {
		q.static = true
		p.OwnerReferences = []metav1.OwnerReference{{APIVersion: "v1", Kind: "Node", Name: "node-1"}}
	}
	return q
}

// doNotDisruptActive at instant now, from the statement / pod.IsDisruptable's documentation
func (q *qPod) doNotDisruptActive(now time.Time) bool {
	switch q.dnd {
	case 1:
		return true
	case 2:
		return !q.started || now.Sub(q.startTime) < q.dndDuration
	}
	return false
}

func qDeadline(label string) *time.Time {
	if verifrt.Choice(label+".set", 0, 1) == 0 {
		return nil
	}
	t := verifrt.Time(label)
	return &t
}

func VerifC10_QueueReconcile() {
	clk := &stubs.Clock{}
	kc := &stubs.Client{Clock: clk, Faults: map[string]bool{"evict": true, "delete:Pod": true}}
	q := NewQueue(clk, kc, &stubs.Recorder{})
	x := qGenPod("pod-1")
	kc.Pods = append(kc.Pods, x.pod.DeepCopy())
	T := qDeadline("deadline")
	if T != nil {
		first, _ := clk.Peek()
		_ = first
		verifrt.Assume(T.After(time.Unix(0, 0)))
	}
	q.Add(T, x.pod)
	kc.OnDelete = func(kind, name string) {
		now, read := clk.Peek()
		verifrt.Assert(kind == "Pod" && name == "pod-1", "the queue deletes only the pod it reconciles")
		verifrt.Assert(T != nil, "pods are deleted directly only when the node has a termination deadline")
		verifrt.Assume(T == nil || (T.Sub(now) < 48*24*time.Hour && now.Sub(*T) < 48*24*time.Hour))
		if x.terminating {
			verifrt.Assert(x.deletionTime.After(*T), "a terminating pod is re-deleted only if its own termination would end after the node deadline")
		} else {
			verifrt.Assert(x.tgps != nil && read && now.After(T.Add(-time.Duration(*x.tgps)*time.Second)), "a pod is deleted directly no earlier than the node deadline minus its own grace period")
		}
		verifrt.Reach("force-deleted")
	}
	_, _ = q.Reconcile(context.Background(), x.pod)
	for _, d := range kc.PodDeletes {
		verifrt.Assert(d.GracePeriodSeconds != nil && *d.GracePeriodSeconds >= 1, "a direct delete never uses a zero grace period")
	}
	if ok, evicted := kc.LastOK("evict", "Pod"); evicted {
		now, _ := clk.Peek()
		verifrt.Assert(!x.terminal && !x.terminating, "only active pods are evicted")
		verifrt.Assert(!x.tolerates, "pods tolerating the disruption taint are not evicted")
		verifrt.Assert(!x.static, "static pods are not evicted")
		verifrt.Assert(!x.doNotDisruptActive(now), "pods with an active do-not-disrupt annotation are not evicted")
		if ok {
			verifrt.Reach("evicted")
			verifrt.Assert(!q.Has(x.pod), "an evicted pod leaves the queue")
		}
	}
	verifrt.Assert(len(kc.PodDeletes)+len(kc.Evictions) <= 1, "a pod is removed at most once per reconcile")
}

func VerifC10_DeadlineMonotone() {
	clk := &stubs.Clock{}
	kc := &stubs.Client{Clock: clk}
	q := NewQueue(clk, kc, &stubs.Recorder{})
	p := &corev1.Pod{}
	p.Name, p.Namespace, p.UID = "pod-1", "default", "uid-1"
	t1, t2 := qDeadline("first"), qDeadline("second")
	q.Add(t1, p)
	q.Add(t2, p)
	got := q.items[NewQueueKey(p)]
	switch {
	case t1 == nil && t2 == nil:
		verifrt.Assert(got == nil, "no deadline stays no deadline")
	case t1 == nil:
		verifrt.Assert(got != nil && got.Equal(*t2), "a deadline can be added later")
	case t2 == nil:
		verifrt.Assert(got != nil && got.Equal(*t1), "a queued deadline is never cleared")
	default:
		verifrt.Assert(got != nil && !got.After(*t1) && !got.After(*t2) && (got.Equal(*t1) || got.Equal(*t2)), "a pod queued under one deadline is never later handled under a later one")
		verifrt.Reach("two-deadlines")
	}
	verifrt.Assert(q.Has(p), "the pod stays queued")
}

func VerifC10_DrainOrder() {
	clk := &stubs.Clock{Frozen: true}
	now := verifrt.Time("now")
	verifrt.Assume(now.After(time.Unix(86400, 0)))
	clk.Set(now)
	kc := &stubs.Client{Clock: clk, Faults: map[string]bool{"list": true}}
	q := NewQueue(clk, kc, &stubs.Recorder{})
	t := NewTerminator(clk, kc, q, &stubs.Recorder{})
	T := qDeadline("deadline")
	n := verifrt.Choice("pods", 0, 3)
	type dPod struct {
		pod             *corev1.Pod
		tier            int
		waiting, forced bool
	}
	var pods []dPod
	for i := 0; i < n; i++ {
		name := "pod-" + strconv.Itoa(i)
		p := &corev1.Pod{}
		p.Name, p.Namespace, p.UID = name, "default", types.UID("uid-"+name)
		p.Spec.NodeName = "node-1"
		p.Status.Phase = corev1.PodRunning
		d := dPod{pod: p, waiting: true}
		critical := verifrt.Choice(name+".critical", 0, 1) == 1
		daemon := verifrt.Choice(name+".daemon", 0, 1) == 1
		if critical {
			p.Spec.PriorityClassName = "system-node-critical"
			d.tier += 2
		}
		if daemon {
			p.OwnerReferences = []metav1.OwnerReference{{APIVersion: "apps/v1", Kind: "DaemonSet", Name: "ds"}}
			d.tier++
		}
		switch verifrt.Choice(name+".kind", 0, 2) {
		case 1: // tolerates the disruption taint (by key, or by tolerating everything): not drained
			if verifrt.Choice(name+".wildcard", 0, 1) == 1 {
				p.Spec.Tolerations = []corev1.Toleration{{Operator: corev1.TolerationOpExists, Effect: corev1.TaintEffectNoSchedule}}
			} else {
				p.Spec.Tolerations = []corev1.Toleration{{Key: v1.DisruptedTaintKey, Operator: corev1.TolerationOpExists}}
			}
			d.waiting = false
		case 2: // has a grace period that may reach past the node deadline
			g := int64(verifrt.IntRange(name+".tgps", 0, 86400))
			p.Spec.TerminationGracePeriodSeconds = &g
			d.forced = T != nil && now.After(T.Add(-time.Duration(g)*time.Second))
		}
		pods = append(pods, d)
		kc.Pods = append(kc.Pods, p)
	}
	node := stubs.Node("node-1", "verif://i-1", corev1.ConditionTrue)
	err := t.Drain(context.Background(), node, T)
	if ok, listed := kc.LastOK("list", "Pod"); listed && !ok {
		verifrt.Assert(err != nil, "a failed pod listing is an error, not a finished drain")
		return
	}
	firstTier := 4
	anyWaiting := false
	for _, d := range pods {
		if d.waiting {
			anyWaiting = true
			if !d.forced && d.tier < firstTier {
				firstTier = d.tier
			}
		}
	}
	verifrt.Assert((err == nil) == !anyWaiting, "drain reports completion exactly when no drainable pod is left")
	for _, d := range pods {
		queued := q.Has(d.pod)
		switch {
		case !d.waiting:
			verifrt.Assert(!queued, "pods Karpenter does not drain are never queued")
		case d.forced:
			verifrt.Assert(queued, "pods past the force-delete threshold are queued whatever their tier")
			verifrt.Reach("forced-queued")
		default:
			verifrt.Assert(queued == (d.tier == firstTier), "graceful eviction is queued for the first non-empty tier only: non-critical non-daemon pods before daemon and critical pods")
		}
	}
	if n >= 2 {
		verifrt.Reach("two-pods")
	}
}
