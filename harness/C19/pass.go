//go:build verif

// verif:dir pkg/controllers/provisioning
//
// C19 (whole pass, NodePool order) — Provisioner.Schedule with several NodePools: a pod that needs a new node is
// assigned to the highest-weight ready NodePool able to host it; a lower-weight pool is used only if every
// higher-weight pool is infeasible for that pod (not ready, zone requirement incompatible with the pod's, taint not
// tolerated, or no instance type large enough).
//
// verif:assume C19: 3 NodePools with symbolic weights 0..100 (equal weights allowed; then any of the tied pools may be used), each ready or not (quick tier: only the first may be unready) and shaped {plain, zone-1 only, tainted}; 2 instance types (4 and 16 cpu) in 2 zones; one pending pod of symbolic cpu with an optional zone-2 selector and an optional toleration; no existing nodes, limits, DaemonSets
// verif:pure ^sigs\.k8s\.io/karpenter/pkg/utils/resources\.(Fits|Cmp)$
// verif:pure ^\(\*sigs\.k8s\.io/karpenter/pkg/scheduling\.Requirement\)\.(Has|Len|Operator)$

package provisioning

import (
	"strconv"

	"github.com/awslabs/operatorpkg/status"
	corev1 "k8s.io/api/core/v1"
	"k8s.io/apimachinery/pkg/api/resource"

	v1 "sigs.k8s.io/karpenter/pkg/apis/v1"
	opopts "sigs.k8s.io/karpenter/pkg/operator/options"
	"sigs.k8s.io/karpenter/pkg/verifrt"
)

func VerifC19_PassHonoursWeights() {
	w := pwNew(&opopts.Options{})
	offers := []pwOffer{{zone: "zone-1", ct: v1.CapacityTypeOnDemand, price: 1, available: true}, {zone: "zone-2", ct: v1.CapacityTypeOnDemand, price: 1, available: true}}
	w.addType("it-m", resource.MustParse("4"), offers)
	w.addType("it-l", resource.MustParse("16"), offers)

	type poolSpec struct {
		name   string
		weight int
		ready  bool
		shape  int // 0 plain, 1 zone-1 only, 2 tainted
	}
	var pools []poolSpec
	for i := 0; i < 3; i++ {
		name := "pool-" + strconv.Itoa(i)
		ps := poolSpec{name: name, weight: verifrt.IntRange(name+".weight", 0, 100), ready: (i > 0 && verifrt.Bound("allPoolsMayBeUnready", 0, 1) == 0) || verifrt.Choice(name+".ready", 0, 1) == 1, shape: verifrt.Choice(name+".shape", 0, 2)}
		np := w.addPool(name, 0)
		wt := int32(ps.weight)
		np.Spec.Weight = &wt
		if !ps.ready {
			// not ready: explicitly False, or not resolved yet (Unknown)
			if verifrt.Choice(name+".notReadyAs", 0, 1) == 0 {
				np.StatusConditions().SetFalse(status.ConditionReady, "NotReady", "not ready")
			} else {
				np.StatusConditions().SetUnknown(status.ConditionReady)
			}
		}
		switch ps.shape {
		case 1:
			np.Spec.Template.Spec.Requirements = []v1.NodeSelectorRequirementWithMinValues{{Key: corev1.LabelTopologyZone, Operator: corev1.NodeSelectorOpIn, Values: []string{"zone-1"}}}
		case 2:
			np.Spec.Template.Spec.Taints = []corev1.Taint{{Key: "dedicated", Value: "x", Effect: corev1.TaintEffectNoSchedule}}
		}
		pools = append(pools, ps)
	}
	cpu := verifrt.MilliQuantity("pod.cpu", 1, 20000)
	p := w.addPod("pending-0", "", cpu)
	zone2 := verifrt.Choice("pod.zone2", 0, 1) == 1
	if zone2 {
		p.Spec.NodeSelector = map[string]string{corev1.LabelTopologyZone: "zone-2"}
	}
	tolerates := verifrt.Choice("pod.tolerates", 0, 1) == 1
	if tolerates {
		p.Spec.Tolerations = []corev1.Toleration{{Key: "dedicated", Operator: corev1.TolerationOpExists}}
	}
	w.deliver()

	results, err := w.prov.Schedule(w.ctx)
	verifrt.Assert(err == nil, "the scheduling pass completes")
	fits := cpu.CmpInt64(16) <= 0 // cpu is in milli-units, CmpInt64 compares whole cores
	feasible := func(ps poolSpec) bool {
		return ps.ready && fits && !(ps.shape == 1 && zone2) && !(ps.shape == 2 && !tolerates)
	}
	pl, cnt := pwFind(results, p.UID)
	anyFeasible := false
	for _, ps := range pools {
		f := feasible(ps)
		anyFeasible = anyFeasible || f
	}
	verifrt.Assert((cnt == 1) == anyFeasible, "the pod gets a new NodeClaim exactly when some ready NodePool can host it")
	if pl.claim == nil {
		return
	}
	verifrt.Reach("placed")
	var chosen *poolSpec
	for i := range pools {
		if pools[i].name == pl.claim.NodePoolName {
			chosen = &pools[i]
		}
	}
	verifrt.Assert(chosen != nil && feasible(*chosen), "the chosen NodePool is ready and able to host the pod")
	if chosen == nil {
		return
	}
	for _, ps := range pools {
		if ps.name == chosen.name {
			continue
		}
		f := feasible(ps)
		verifrt.Assert(!f || ps.weight <= chosen.weight, "a lower-weight NodePool is used only if every higher-weight NodePool is infeasible for the pod")
		if f && ps.weight < chosen.weight {
			verifrt.Reach("lower-weight-feasible-pool-skipped")
		}
	}
}
