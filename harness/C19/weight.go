//go:build verif

// verif:dir pkg/utils/nodepool
//
// C19 (weight ordering) — NodePools are tried in order of weight, highest first; ties are broken by name (DESIGN §7 C19-1).
//
// verif:assume C19: up to 4 NodePools with distinct names; weights are arbitrary int32 values or unset (= 0)

package nodepool

import (
	"strconv"

	v1 "sigs.k8s.io/karpenter/pkg/apis/v1"
	"sigs.k8s.io/karpenter/pkg/verifrt"
)

func VerifC19_OrderByWeight() {
	n := verifrt.Choice("pools", 0, 4)
	var nps []*v1.NodePool
	for i := 0; i < n; i++ {
		np := &v1.NodePool{}
		np.Name = "pool-" + strconv.Itoa(i)
		if verifrt.Choice("weight.set", 0, 1) == 1 {
			w := int32(verifrt.IntRange("weight", -2147483648, 2147483647))
			np.Spec.Weight = &w
		}
		nps = append(nps, np)
	}
	input := append([]*v1.NodePool{}, nps...)
	OrderByWeight(nps)
	verifrt.Assert(len(nps) == n, "ordering keeps every NodePool")
	for _, in := range input {
		cnt := 0
		for _, out := range nps {
			if in == out {
				cnt++
			}
		}
		verifrt.Assert(cnt == 1, "ordering is a permutation")
	}
	weight := func(np *v1.NodePool) int32 {
		if np.Spec.Weight == nil {
			return 0
		}
		return *np.Spec.Weight
	}
	for i := 0; i+1 < len(nps); i++ {
		a, b := weight(nps[i]), weight(nps[i+1])
		verifrt.Assert(a >= b, "a NodePool is never ordered before one of higher weight")
		verifrt.Assert(a != b || nps[i].Name > nps[i+1].Name, "equal weights are ordered by name, later names first")
		verifrt.Reach("adjacent-pair")
	}
}
