//go:build verif

// verif:dir pkg/cloudprovider
//
// C19 (price ordering) — the instance types sent to the provider are the cheapest of the scheduler's options,
// ranked by their cheapest compatible available offering, so truncation never drops a cheaper type in
// favour of a dearer one (DESIGN §7 C19-3). Prices are symbolic float64 values.
//
// verif:assume C19: up to 3 instance types; 2 offerings on the first and 1 (quick) / 2 (thorough) on the others; prices are finite and >= 0; sort.Slice is modelled as a sort that calls the real comparison function
// verif:pure ^sigs\.k8s\.io/karpenter/pkg/cloudprovider\.pCheapest$

package cloudprovider

import (
	"context"
	"math"
	"strconv"

	corev1 "k8s.io/api/core/v1"

	"sigs.k8s.io/karpenter/pkg/scheduling"
	"sigs.k8s.io/karpenter/pkg/verifrt"
)

type pOffer struct {
	price      float64
	available  bool
	compatible bool
}

// pCheapest: the statement's ranking key — the cheapest compatible available offering (MaxFloat64 when there is none).
func pCheapest(ofs []pOffer) float64 {
	best := math.MaxFloat64
	for _, o := range ofs {
		if o.available && o.compatible && o.price < best {
			best = o.price
		}
	}
	return best
}

func VerifC19_PriceTruncation() {
	n := verifrt.Choice("instanceTypes", 1, 3)
	reqs := scheduling.NewRequirements(scheduling.NewRequirement(corev1.LabelTopologyZone, corev1.NodeSelectorOpIn, "zone-1"))
	ghost := map[string][]pOffer{}
	var its InstanceTypes
	for i := 0; i < n; i++ {
		name := "it-" + strconv.Itoa(i)
		it := &InstanceType{Name: name}
		maxOf := verifrt.Bound("offeringsPerType", 1, 2)
		if i == 0 {
			maxOf = 2
		}
		m := verifrt.Choice(name+".offerings", 1, maxOf)
		for j := 0; j < m; j++ {
			o := pOffer{price: verifrt.Float(name + ".price"), available: verifrt.Choice(name+".available", 0, 1) == 1, compatible: verifrt.Choice(name+".compatible", 0, 1) == 1}
			verifrt.Assume(o.price >= 0)
			zone := "zone-2"
			if o.compatible {
				zone = "zone-1"
			}
			it.Offerings = append(it.Offerings, &Offering{
				Price: o.price, Available: o.available,
				Requirements: scheduling.NewRequirements(scheduling.NewRequirement(corev1.LabelTopologyZone, corev1.NodeSelectorOpIn, zone)),
			})
			ghost[name] = append(ghost[name], o)
		}
		its = append(its, it)
	}
	maxItems := verifrt.Choice("maxItems", 0, n)
	input := append(InstanceTypes{}, its...)
	kept, err := its.Truncate(context.Background(), reqs, maxItems)
	verifrt.Assert(err == nil, "truncation without minValues never fails")
	verifrt.Assert(len(kept) == maxItems, "truncation keeps exactly maxItems types when that many exist")
	keptNames := map[string]bool{}
	for _, k := range kept {
		found := false
		for _, in := range input {
			found = found || in == k
		}
		verifrt.Assert(found && !keptNames[k.Name], "the truncated list is a duplicate-free subset of the scheduler's options")
		keptNames[k.Name] = true
	}
	for _, d := range input {
		if keptNames[d.Name] {
			continue
		}
		dc := pCheapest(ghost[d.Name])
		for _, k := range kept {
			kc := pCheapest(ghost[k.Name])
			verifrt.Assert(kc <= dc, "truncation never drops a type in favour of one whose cheapest compatible available offering is dearer")
			verifrt.Reach("dropped-vs-kept")
		}
	}
}
