//go:build verif

// verif:dir pkg/controllers/nodeclaim/disruption
//
// C15 (drift half) — a NodeClaim freshly created from a NodePool and launched as any permitted instance type and
// offering is not reported Drifted, whatever the interleaving with the NodePool hash controller; it is reported
// Drifted when its labels stop satisfying the NodePool's requirements or its hash differs under the same hash
// version (DESIGN §7 C15). The whole chain runs on the real code: hash.Controller.Reconcile,
// NewNodeClaimTemplate, NewNodeClaim/CanAdd/Add/FinalizeScheduling/ToNodeClaim, PopulateNodeClaimDetails and
// the nodeclaim disruption Controller.Reconcile (Drift sub-reconciler).
//
// verif:assume C15: hashstructure.Hash is modelled as a deterministic function of the canonical rendering of Spec.Template (equal templates hash equal, templates differing in a hashed field hash differently); the hash half of the property (which fields are hashed, order-insensitivity of the real reflection walk) is NOT decided by this check
// verif:assume C15: provider contract (as the fake and the AWS provider do): Create launches one of the instance types named by the NodeClaim's instance-type requirement into an available offering compatible with the NodeClaim's requirements and labels the NodeClaim with the single-valued requirements of that instance type and offering; every well-known label key a NodePool constrains is defined by every instance type
// verif:assume C15: drift is judged after the hash controller has reconciled the NodePool's latest template edit (the window in which the NodePool still carries the pre-edit hash is outside the claim)
// verif:assume C15: 2 instance types x 2 offerings (2 zones, 2 capacity types, 2 architectures); NodePool requirements: 0..2 expressions on one custom key over every operator with 2 label-value atoms, zone none/In/NotIn, capacity type none/In, architecture none/In; one pod with optional custom-key and zone selectors; math/rand.Intn(n) is an arbitrary value in [0,n)
// verif:pure ^\(\*sigs\.k8s\.io/karpenter/pkg/scheduling\.Requirement\)\.(Has|Len|Operator)$
// verif:pure ^sigs\.k8s\.io/karpenter/pkg/scheduling\.withinBounds$
// verif:pure ^sigs\.k8s\.io/karpenter/pkg/utils/resources\.(Fits|Cmp)$

package disruption

import (
	"context"
	"strconv"
	"time"

	corev1 "k8s.io/api/core/v1"
	metav1 "k8s.io/apimachinery/pkg/apis/meta/v1"
	"k8s.io/apimachinery/pkg/api/resource"

	v1 "sigs.k8s.io/karpenter/pkg/apis/v1"
	"sigs.k8s.io/karpenter/pkg/cloudprovider"
	"sigs.k8s.io/karpenter/pkg/controllers/nodeclaim/lifecycle"
	"sigs.k8s.io/karpenter/pkg/controllers/nodepool/hash"
	pscheduling "sigs.k8s.io/karpenter/pkg/controllers/provisioning/scheduling"
	opopts "sigs.k8s.io/karpenter/pkg/operator/options"
	"sigs.k8s.io/karpenter/pkg/scheduling"
	"sigs.k8s.io/karpenter/pkg/utils/resources"
	"sigs.k8s.io/karpenter/pkg/verifrt"
	"sigs.k8s.io/karpenter/pkg/verifrt/stubs"
)

const dKey = "example.com/team"

var dOps = []corev1.NodeSelectorOperator{
	corev1.NodeSelectorOpIn, corev1.NodeSelectorOpNotIn, corev1.NodeSelectorOpExists, corev1.NodeSelectorOpDoesNotExist,
	corev1.NodeSelectorOpGt, corev1.NodeSelectorOpLt, v1.NodeSelectorOpGte, v1.NodeSelectorOpLte,
}

type dSpec struct {
	op   int
	vals []string
	n    int
	raw  string
}

func dSubset(label string, u []string, min int) []string {
	mask := verifrt.Choice(label, min, (1<<len(u))-1)
	var out []string
	for i := range u {
		if mask&(1<<i) != 0 {
			out = append(out, u[i])
		}
	}
	return out
}

func dGen(tag string, u []string, operandAtom int) dSpec {
	s := dSpec{op: verifrt.Choice(tag+".op", 0, 7)}
	switch s.op {
	case 0, 1:
		s.vals = dSubset(tag+".vals", u, 1)
	case 4, 5, 6, 7:
		s.raw = verifrt.Atom(operandAtom)
		n, err := strconv.Atoi(s.raw)
		verifrt.Assume(err == nil && n >= 0)
		s.n = n
	}
	return s
}

func (s dSpec) expr() v1.NodeSelectorRequirementWithMinValues {
	e := v1.NodeSelectorRequirementWithMinValues{Key: dKey, Operator: dOps[s.op]}
	switch s.op {
	case 0, 1:
		e.Values = append([]string{}, s.vals...)
	case 4, 5, 6, 7:
		e.Values = []string{s.raw}
	}
	return e
}

// admits: Kubernetes label-selector semantics of one expression against a node that carries (defined) or lacks the label
func (s dSpec) admits(defined bool, w string) bool {
	if !defined {
		return s.op == 1 || s.op == 3
	}
	in := false
	for _, x := range s.vals {
		if x == w {
			in = true
		}
	}
	switch s.op {
	case 0:
		return in
	case 1:
		return !in
	case 2:
		return true
	case 3:
		return false
	}
	x, err := strconv.Atoi(w)
	if err != nil {
		return false
	}
	switch s.op {
	case 4:
		return x > s.n
	case 5:
		return x < s.n
	case 6:
		return x >= s.n
	}
	return x <= s.n
}

type dOffer struct{ zone, ct string }

func dType(name, arch string, offers []dOffer) *cloudprovider.InstanceType {
	var ofs cloudprovider.Offerings
	var zs, cs []string
	for k, o := range offers {
		ofs = append(ofs, &cloudprovider.Offering{Available: true, Price: float64(k + 1), Requirements: scheduling.NewRequirements(
			scheduling.NewRequirement(corev1.LabelTopologyZone, corev1.NodeSelectorOpIn, o.zone),
			scheduling.NewRequirement(v1.CapacityTypeLabelKey, corev1.NodeSelectorOpIn, o.ct),
		)})
		zs, cs = append(zs, o.zone), append(cs, o.ct)
	}
	return &cloudprovider.InstanceType{
		Name: name,
		Requirements: scheduling.NewRequirements(
			scheduling.NewRequirement(corev1.LabelInstanceTypeStable, corev1.NodeSelectorOpIn, name),
			scheduling.NewRequirement(corev1.LabelArchStable, corev1.NodeSelectorOpIn, arch),
			scheduling.NewRequirement(corev1.LabelOSStable, corev1.NodeSelectorOpIn, "linux"),
			scheduling.NewRequirement(corev1.LabelTopologyZone, corev1.NodeSelectorOpIn, zs...),
			scheduling.NewRequirement(v1.CapacityTypeLabelKey, corev1.NodeSelectorOpIn, cs...),
		),
		Offerings: ofs,
		Capacity:  corev1.ResourceList{corev1.ResourceCPU: resource.MustParse("4"), corev1.ResourceMemory: resource.MustParse("8Gi"), corev1.ResourcePods: resource.MustParse("110")},
		Overhead:  &cloudprovider.InstanceTypeOverhead{},
	}
}

func dCatalogue() []*cloudprovider.InstanceType {
	return []*cloudprovider.InstanceType{
		dType("it-a", "amd64", []dOffer{{"zone-1", v1.CapacityTypeOnDemand}, {"zone-2", v1.CapacityTypeSpot}}),
		dType("it-b", "arm64", []dOffer{{"zone-2", v1.CapacityTypeOnDemand}, {"zone-1", v1.CapacityTypeSpot}}),
	}
}

func dPool() *v1.NodePool {
	np := &v1.NodePool{}
	np.Name, np.UID = "pool-1", "uid-pool-1"
	np.Spec.Template.Spec.NodeClassRef = &v1.NodeClassReference{Group: stubs.NodeClassGroup, Kind: stubs.NodeClassKind, Name: "default"}
	np.Spec.Template.Labels = map[string]string{"tier": "a"}
	return np
}

// dLaunch is the provider's side of the launch: any instance type the NodeClaim names, any available offering
// compatible with the NodeClaim's requirements; labels as the provider resolves them.
func dLaunch(nc *v1.NodeClaim, its []*cloudprovider.InstanceType) *v1.NodeClaim {
	reqs := scheduling.NewNodeSelectorRequirementsWithMinValues(nc.Spec.Requirements...)
	k := verifrt.Choice("launch.instanceType", 0, len(its)-1)
	it := its[k]
	verifrt.Assume(reqs.Get(corev1.LabelInstanceTypeStable).Has(it.Name))
	verifrt.Assume(reqs.IsCompatible(it.Requirements, scheduling.AllowUndefinedWellKnownLabels))
	o := verifrt.Choice("launch.offering", 0, len(it.Offerings)-1)
	of := it.Offerings[o]
	verifrt.Assume(of.Available && reqs.IsCompatible(of.Requirements, scheduling.AllowUndefinedWellKnownLabels))
	labels := map[string]string{}
	for key, r := range it.Requirements {
		if r.Operator() == corev1.NodeSelectorOpIn {
			labels[key] = r.Values()[0]
		}
	}
	for _, r := range of.Requirements {
		labels[r.Key] = r.Any()
	}
	created := nc.DeepCopy()
	for k, v := range nc.Labels {
		labels[k] = v
	}
	created.Labels = labels
	created.Status.ProviderID = "verif://i-1"
	created.Status.Capacity = it.Capacity
	created.Status.Allocatable = it.Allocatable()
	return created
}

type dWorld struct {
	ctx  context.Context
	clk  *stubs.Clock
	kc   *stubs.Client
	prov *stubs.Provider
	its  []*cloudprovider.InstanceType
	hc   *hash.Controller
	dc   *Controller
}

func dNewWorld() *dWorld {
	w := &dWorld{ctx: opopts.ToContext(context.Background(), &opopts.Options{})}
	w.clk = &stubs.Clock{Frozen: true}
	w.clk.Set(time.Unix(1700000000, 0))
	w.kc = &stubs.Client{Clock: w.clk}
	w.prov = stubs.ManagedProvider()
	w.its = dCatalogue()
	w.prov.InstanceTypes = w.its
	w.hc = hash.NewController(w.kc, w.prov)
	w.dc = NewController(w.clk, w.kc, w.prov)
	return w
}

func (w *dWorld) hashReconcile(np *v1.NodePool) {
	cur := w.kc.Pools[0]
	_, err := w.hc.Reconcile(w.ctx, cur)
	verifrt.Assert(err == nil, "the hash controller reconciles without error")
}

func dDrifted(nc *v1.NodeClaim) string {
	c := nc.StatusConditions().Get(v1.ConditionTypeDrifted)
	if c == nil || !c.IsTrue() {
		return ""
	}
	return c.Reason
}

// 1. no self-inflicted drift, across scheduler, launch, hash controller and drift controller
func VerifC15_NoSelfDrift() {
	w := dNewWorld()
	u := []string{verifrt.Atom(0), verifrt.Atom(1)}
	np := dPool()
	// quick tier: three sweeps (0 hash-controller interleavings, 1 custom-label requirements, 2 well-known-label requirements);
	// thorough tier: requirements swept together, interleavings still on their own
	sweep := verifrt.Choice("sweep", 0, 2)
	full := verifrt.Bound("fullProduct", 0, 1) == 1
	// thorough: sweep 1 additionally varies the zone constraint together with the custom-key requirements
	custom, wellKnown, interleave := sweep == 1, sweep == 2 || (full && sweep == 1), sweep == 0

	// ---- the NodePool's requirements ----
	nexpr := 0
	if custom {
		nexpr = verifrt.Choice("pool.customExprs", 0, 2)
	}
	var specs []dSpec
	hasIn, hasNotIn, hasBound := false, false, false
	for i := 0; i < nexpr; i++ {
		s := dGen("pool.e"+strconv.Itoa(i), u, 10+i)
		specs = append(specs, s)
		np.Spec.Template.Spec.Requirements = append(np.Spec.Template.Spec.Requirements, s.expr())
		hasIn = hasIn || s.op == 0
		hasNotIn = hasNotIn || s.op == 1
		hasBound = hasBound || s.op >= 4
	}
	add := func(key string, op corev1.NodeSelectorOperator, vals ...string) {
		np.Spec.Template.Spec.Requirements = append(np.Spec.Template.Spec.Requirements, v1.NodeSelectorRequirementWithMinValues{Key: key, Operator: op, Values: vals})
	}
	if wellKnown {
		switch verifrt.Choice("pool.zone", 0, 3) {
		case 1:
			add(corev1.LabelTopologyZone, corev1.NodeSelectorOpIn, "zone-1")
		case 2:
			add(corev1.LabelTopologyZone, corev1.NodeSelectorOpIn, "zone-1", "zone-2")
		case 3:
			add(corev1.LabelTopologyZone, corev1.NodeSelectorOpNotIn, "zone-1")
		}
		// (in the thorough product with the custom-key requirements only the zone constraint varies)
		if !(full && custom) {
			switch verifrt.Choice("pool.capacityType", 0, 2) {
			case 1:
				add(v1.CapacityTypeLabelKey, corev1.NodeSelectorOpIn, v1.CapacityTypeOnDemand)
			case 2:
				add(v1.CapacityTypeLabelKey, corev1.NodeSelectorOpIn, v1.CapacityTypeSpot)
			}
			if verifrt.Choice("pool.arch", 0, 1) == 1 {
				add(corev1.LabelArchStable, corev1.NodeSelectorOpIn, "arm64")
			}
		}
	}
	w.kc.Pools = []*v1.NodePool{np}

	// ---- interleaving with the hash controller: it may have seen the NodePool before a template edit, after it, or not yet ----
	pickI := func(tag string, dflt int) bool {
		if !interleave {
			return dflt == 1
		}
		return verifrt.Choice(tag, 0, 1) == 1
	}
	if pickI("hash.beforeEdit", 1) {
		w.hashReconcile(np)
	}
	edited, caughtUp := pickI("pool.edit", 0), false
	if edited {
		verifrt.Reach("template-edited")
		w.kc.Pools[0].Spec.Template.Labels = map[string]string{"tier": "b"} // a drift-relevant template edit
	}
	if pickI("hash.afterEdit", 0) {
		w.hashReconcile(np)
		caughtUp = true
	}
	pool := w.kc.Pools[0]

	// ---- the scheduler creates a NodeClaim for one pod ----
	nct := pscheduling.NewNodeClaimTemplate(pool)
	n := pscheduling.NewNodeClaim(nct, &pscheduling.Topology{}, []pscheduling.DaemonOverheadGroup{{InstanceTypes: w.its, DaemonOverhead: corev1.ResourceList{}, HostPortUsage: scheduling.NewHostPortUsage()}},
		w.its, pscheduling.NewReservationManager(nil), pscheduling.ReservedOfferingModeFallback)
	pod := &corev1.Pod{}
	pod.Name, pod.Namespace, pod.UID = "pod-1", "default", "uid-pod-1"
	pod.Spec.Containers = []corev1.Container{{Name: "main", Resources: corev1.ResourceRequirements{Requests: corev1.ResourceList{corev1.ResourceCPU: resource.MustParse("1")}}}}
	sel := map[string]string{}
	if custom && verifrt.Choice("pod.custom", 0, 1) == 1 {
		sel[dKey] = u[0]
	}
	if wellKnown && verifrt.Choice("pod.zone", 0, 1) == 1 {
		sel[corev1.LabelTopologyZone] = "zone-2"
	}
	if len(sel) > 0 {
		pod.Spec.NodeSelector = sel
	}
	pd := &pscheduling.PodData{Requests: resources.RequestsForPods(pod), Requirements: scheduling.NewPodRequirements(pod), StrictRequirements: scheduling.NewStrictPodRequirements(pod)}
	reqs, remaining, ofs, _, err := n.CanAdd(w.ctx, pod, pd, false, nil)
	if err != nil {
		return
	}
	n.Add(w.ctx, pod, pd, reqs, remaining, ofs, nil, nil)
	n.FinalizeScheduling()
	nc := n.ToNodeClaim()
	nc.Name = "claim-1"
	nc.UID = "uid-claim-1"
	nc.CreationTimestamp = metav1.Time{Time: w.clk.Now()}

	// C15-F1 (consequence of C13-F3): the value chosen for a custom label ignores the exclusion list
	verifrt.KnownFinding("C15-F1", hasNotIn && !hasIn)
	_ = hasBound

	// ---- launch ----
	created := dLaunch(nc, w.its)
	nc = lifecycle.PopulateNodeClaimDetails(nc, created)
	stubs.SetCondition(nc, v1.ConditionTypeLaunched, metav1.ConditionTrue, w.clk.Now())
	w.kc.Claims = []*v1.NodeClaim{nc}
	verifrt.Reach("launched")

	// ---- the hash controller catches up, then drift is evaluated (fresh, and again after the instance-type check kicks in) ----
	if pickI("hash.afterLaunch", 1) {
		w.hashReconcile(np)
		caughtUp = true
	}
	// Drift is judged once the hash controller has seen the NodePool's current template. While the NodePool still carries
	// the hash of the template before the edit, a NodeClaim created from the edited template differs from it by
	// construction; that window closes with the hash controller's next reconcile and is not counted against the property.
	verifrt.Assume(!edited || caughtUp)
	if verifrt.Choice("age", 0, 1) == 1 {
		w.clk.Set(w.clk.Now().Add(2 * time.Hour))
	}
	cur := w.kc.StoredClaim(nc.Name).DeepCopy()
	_, rerr := w.dc.Reconcile(w.ctx, cur)
	verifrt.Assert(rerr == nil, "the drift controller reconciles without error")
	got := dDrifted(w.kc.StoredClaim(nc.Name))
	verifrt.Observe("drifted", got)
	verifrt.Assert(got == "", "a NodeClaim freshly created from a NodePool and launched as a permitted instance type and offering is not reported Drifted")
}

// 2. drift is reported exactly for unsatisfied requirements or a differing hash under the same hash version
func VerifC15_DriftedWhen() {
	w := dNewWorld()
	u := []string{verifrt.Atom(0), verifrt.Atom(1)}
	np := dPool()

	// quick tier: sweep 0 varies the hash annotations and the NodeClaim's state, sweep 1 the requirements; thorough: the product
	sweep := 2
	if verifrt.Bound("fullProduct", 0, 1) == 0 {
		sweep = verifrt.Choice("sweep", 0, 1)
	}
	// the NodeClaim's labels: custom label defined (any of the atoms) or not, zone and capacity type of the launch
	nc := stubs.NodeClaim("claim-1")
	nc.CreationTimestamp = metav1.Time{Time: w.clk.Now()}
	nc.Labels[corev1.LabelInstanceTypeStable] = "it-a"
	nc.Labels[corev1.LabelTopologyZone] = "zone-1"
	nc.Labels[v1.CapacityTypeLabelKey] = v1.CapacityTypeOnDemand
	defined := sweep != 0 && verifrt.Choice("claim.customLabel", 0, 1) == 1
	label := ""
	if defined {
		label = u[0]
		nc.Labels[dKey] = label
	}
	launched := sweep != 0 || verifrt.Choice("claim.launched", 0, 1) == 1
	if launched {
		stubs.SetCondition(nc, v1.ConditionTypeLaunched, metav1.ConditionTrue, w.clk.Now())
	}
	if sweep == 0 && verifrt.Choice("claim.wasDrifted", 0, 1) == 1 {
		stubs.SetCondition(nc, v1.ConditionTypeDrifted, metav1.ConditionTrue, w.clk.Now())
	}

	// the NodePool's current requirements
	nexpr := 0
	if sweep != 0 {
		nexpr = verifrt.Choice("pool.customExprs", 0, 2)
	}
	var specs []dSpec
	for i := 0; i < nexpr; i++ {
		s := dGen("pool.e"+strconv.Itoa(i), u, 10+i)
		specs = append(specs, s)
		np.Spec.Template.Spec.Requirements = append(np.Spec.Template.Spec.Requirements, s.expr())
	}
	zoneOK := true
	zoneShape := 0
	if sweep != 0 {
		zoneShape = verifrt.Choice("pool.zone", 0, 2)
	}
	switch zoneShape {
	case 1:
		np.Spec.Template.Spec.Requirements = append(np.Spec.Template.Spec.Requirements, v1.NodeSelectorRequirementWithMinValues{Key: corev1.LabelTopologyZone, Operator: corev1.NodeSelectorOpIn, Values: []string{"zone-1", "zone-2"}})
	case 2:
		np.Spec.Template.Spec.Requirements = append(np.Spec.Template.Spec.Requirements, v1.NodeSelectorRequirementWithMinValues{Key: corev1.LabelTopologyZone, Operator: corev1.NodeSelectorOpIn, Values: []string{"zone-2"}})
		zoneOK = false
	}

	// hash annotations: absent or one of two values, independently on both objects
	// thorough product (sweep 2): all four annotations present; hash equal or not, version equal or not
	pick := func(tag string, a, b string) (string, bool) {
		if sweep == 1 {
			return a, true
		}
		if sweep == 2 {
			if tag == "pool.hash" || tag == "pool.hashVersion" {
				return a, true
			}
			if verifrt.Choice(tag, 1, 2) == 1 {
				return a, true
			}
			return b, true
		}
		switch verifrt.Choice(tag, 0, 2) {
		case 1:
			return a, true
		case 2:
			return b, true
		}
		return "", false
	}
	np.Annotations, nc.Annotations = map[string]string{}, map[string]string{}
	ph, phOK := pick("pool.hash", "111", "222")
	pv, pvOK := pick("pool.hashVersion", v1.NodePoolHashVersion, "v2")
	ch, chOK := pick("claim.hash", "111", "222")
	cv, cvOK := pick("claim.hashVersion", v1.NodePoolHashVersion, "v2")
	if phOK {
		np.Annotations[v1.NodePoolHashAnnotationKey] = ph
	}
	if pvOK {
		np.Annotations[v1.NodePoolHashVersionAnnotationKey] = pv
	}
	if chOK {
		nc.Annotations[v1.NodePoolHashAnnotationKey] = ch
	}
	if cvOK {
		nc.Annotations[v1.NodePoolHashVersionAnnotationKey] = cv
	}
	providerDrift := sweep != 1 && verifrt.Choice("provider.drifted", 0, 1) == 1
	if providerDrift {
		w.prov.Drifted = "ProviderSideDrift"
	}
	w.kc.Pools = []*v1.NodePool{np}
	w.kc.Claims = []*v1.NodeClaim{nc}

	_, rerr := w.dc.Reconcile(w.ctx, nc.DeepCopy())
	verifrt.Assert(rerr == nil, "the drift controller reconciles without error")
	got := dDrifted(w.kc.StoredClaim(nc.Name))
	verifrt.Observe("drifted", got)

	// C15-F2 (consequence of C12-F1/F2): a conjunction that needs the label present but whose Operator() reports NotIn or
	// DoesNotExist is treated as satisfied by a NodeClaim that lacks the label
	if nexpr > 0 {
		needsPresent := false
		for _, s := range specs {
			needsPresent = needsPresent || (s.op != 1 && s.op != 3)
		}
		op := scheduling.NewNodeSelectorRequirementsWithMinValues(np.Spec.Template.Spec.Requirements...).Get(dKey).Operator()
		verifrt.KnownFinding("C15-F2", !defined && needsPresent && (op == corev1.NodeSelectorOpNotIn || op == corev1.NodeSelectorOpDoesNotExist))
	}
	static := phOK && pvOK && chOK && cvOK && pv == cv && ph != ch
	reqOK := zoneOK
	for _, s := range specs {
		ok := s.admits(defined, label)
		reqOK = reqOK && ok
	}
	want := ""
	switch {
	case !launched:
	case static:
		want = string(NodePoolDrifted)
	case !reqOK:
		want = string(RequirementsDrifted)
	case providerDrift:
		want = "ProviderSideDrift"
	}
	if want == string(RequirementsDrifted) {
		verifrt.Reach("requirements-drifted")
	}
	if want == string(NodePoolDrifted) {
		verifrt.Reach("hash-drifted")
	}
	verifrt.Assert((got != "") == (want != ""), "a launched NodeClaim is reported Drifted exactly when its hash differs under the same hash version, its labels no longer satisfy the NodePool's requirements, or the provider reports drift")
	verifrt.Assert(got == want, "the reported drift reason names the first cause that applies")
}
