//go:build verif

// verif:dir pkg/apis/v1
//
// C15 (which fields the hash follows) — NodePool.Hash() is unchanged by edits to fields documented as non-drifting
// (requirements, limits, weight, budgets, consolidation settings, replicas) and by reordering of lists and maps, and
// changes when any other template field changes (labels, annotations, taints, startup taints, nodeClassRef,
// expireAfter, terminationGracePeriod).
//
// verif:assume C15: hashstructure.Hash is taken at its documented contract — fields tagged hash:"ignore" are skipped, slices are compared as sets (SlicesAsSets), maps regardless of order, zero values ignored; the engine's model implements that contract over the REAL struct types and their REAL tags (read from /repo's source on every run), so a field that gains or loses its ignore tag, or a new hashed field, changes the outcome; the library's own reflection walk and FNV collisions are outside

package v1

import (
	"time"

	corev1 "k8s.io/api/core/v1"
	"k8s.io/apimachinery/pkg/api/resource"
	metav1 "k8s.io/apimachinery/pkg/apis/meta/v1"

	"sigs.k8s.io/karpenter/pkg/verifrt"
)

func hPool() *NodePool {
	np := &NodePool{}
	np.Name = "pool-1"
	np.Spec.Template.Labels = map[string]string{"tier": "a", "team": "x"}
	np.Spec.Template.Annotations = map[string]string{"note": "1"}
	np.Spec.Template.Spec.NodeClassRef = &NodeClassReference{Group: "karpenter.test.sh", Kind: "TestNodeClass", Name: "default"}
	np.Spec.Template.Spec.Taints = []corev1.Taint{{Key: "a", Value: "1", Effect: corev1.TaintEffectNoSchedule}, {Key: "b", Value: "2", Effect: corev1.TaintEffectNoExecute}}
	np.Spec.Template.Spec.StartupTaints = []corev1.Taint{{Key: "boot", Effect: corev1.TaintEffectNoSchedule}}
	np.Spec.Template.Spec.Requirements = []NodeSelectorRequirementWithMinValues{
		{Key: corev1.LabelTopologyZone, Operator: corev1.NodeSelectorOpIn, Values: []string{"zone-1"}},
		{Key: CapacityTypeLabelKey, Operator: corev1.NodeSelectorOpIn, Values: []string{CapacityTypeOnDemand}},
	}
	d := time.Hour
	np.Spec.Template.Spec.ExpireAfter = NillableDuration{Duration: &d}
	np.Spec.Template.Spec.TerminationGracePeriod = &metav1.Duration{Duration: time.Minute}
	np.Spec.Limits = Limits{corev1.ResourceCPU: resource.MustParse("10")}
	w := int32(5)
	np.Spec.Weight = &w
	np.Spec.Disruption.Budgets = []Budget{{Nodes: "10%"}}
	np.Spec.Disruption.ConsolidationPolicy = ConsolidationPolicyWhenEmptyOrUnderutilized
	return np
}

func VerifC15_HashFollowsDocumentedFields() {
	np := hPool()
	before := np.Hash()
	edit := verifrt.Choice("edit", 0, 19)
	drifting := false
	switch edit {
	// ---- documented as non-drifting ----
	case 0: // requirements widened
		np.Spec.Template.Spec.Requirements[0].Values = []string{"zone-1", "zone-2"}
	case 1: // a requirement added
		np.Spec.Template.Spec.Requirements = append(np.Spec.Template.Spec.Requirements, NodeSelectorRequirementWithMinValues{Key: "example.com/team", Operator: corev1.NodeSelectorOpExists})
	case 2: // minValues set
		two := 2
		np.Spec.Template.Spec.Requirements[0].MinValues = &two
	case 3:
		np.Spec.Limits = Limits{corev1.ResourceCPU: resource.MustParse("20"), corev1.ResourceMemory: resource.MustParse("1Gi")}
	case 4:
		w := int32(50)
		np.Spec.Weight = &w
	case 5:
		np.Spec.Disruption.Budgets = []Budget{{Nodes: "0"}, {Nodes: "5", Reasons: []DisruptionReason{DisruptionReasonDrifted}}}
	case 6:
		d := 30 * time.Second
		np.Spec.Disruption.ConsolidateAfter = NillableDuration{Duration: &d}
	case 7:
		np.Spec.Disruption.ConsolidationPolicy = ConsolidationPolicyWhenEmpty
	case 8:
		r := int64(3)
		np.Spec.Replicas = &r
	// ---- reordering ----
	case 9:
		t := np.Spec.Template.Spec.Taints
		t[0], t[1] = t[1], t[0]
	case 10:
		np.Spec.Template.Labels = map[string]string{"team": "x", "tier": "a"}
	case 11:
		r := np.Spec.Template.Spec.Requirements
		r[0], r[1] = r[1], r[0]
	// ---- every other template field drifts ----
	case 12:
		np.Spec.Template.Labels["tier"], drifting = "b", true
	case 13:
		np.Spec.Template.Annotations["note"], drifting = "2", true
	case 14:
		np.Spec.Template.Spec.Taints = append(np.Spec.Template.Spec.Taints, corev1.Taint{Key: "c", Effect: corev1.TaintEffectNoSchedule})
		drifting = true
	case 15:
		np.Spec.Template.Spec.Taints[0].Effect, drifting = corev1.TaintEffectPreferNoSchedule, true
	case 16:
		np.Spec.Template.Spec.StartupTaints, drifting = nil, true
	case 17:
		np.Spec.Template.Spec.NodeClassRef.Name, drifting = "other", true
	case 18:
		d := 2 * time.Hour
		np.Spec.Template.Spec.ExpireAfter, drifting = NillableDuration{Duration: &d}, true
	case 19:
		np.Spec.Template.Spec.TerminationGracePeriod, drifting = &metav1.Duration{Duration: time.Hour}, true
	}
	after := np.Hash()
	if drifting {
		verifrt.Reach("drifting-edit")
		verifrt.Assert(after != before, "the NodePool hash changes when a drift-relevant template field changes")
	} else {
		verifrt.Reach("non-drifting-edit")
		verifrt.Assert(after == before, "the NodePool hash is unchanged by reordering and by edits to fields documented as non-drifting")
	}
}
