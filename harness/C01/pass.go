//go:build verif

// verif:dir pkg/controllers/provisioning
//
// C01 (whole pass) — Provisioner.Schedule on a real cluster state: every placement the pass reports is admissible
// under Kubernetes rules for the pod's required constraints. On the existing node: labels satisfy the pod's node
// selector, taints are tolerated, host ports are free and the summed requests fit the allocatable. On a new NodeClaim:
// for every instance type it may be launched as, the summed requests of the pods placed on it fit, and some available
// offering compatible with the NodeClaim's requirements lies in a zone and capacity type every one of its pods admits;
// taints of the NodePool are tolerated; two pods asking for the same host port never share a node.
//
// verif:assume C01: one NodePool (optionally tainted), 2 instance types x 2 offerings over 2 zones and 2 capacity types with symbolic availability and symbolic cpu, one initialized existing node (zone-1, on-demand, optionally tainted) of symbolic allocatable cpu; 2 pending pods of symbolic cpu, each with a constraint shape out of {none, zone selector, capacity-type selector, required zone NotIn, host port 8080} and a toleration or not; no DaemonSets, volumes, DRA, topology constraints, preferences
// verif:pure ^sigs\.k8s\.io/karpenter/pkg/utils/resources\.(Fits|Cmp)$
// verif:pure ^\(\*sigs\.k8s\.io/karpenter/pkg/scheduling\.Requirement\)\.(Has|Len|Operator)$

package provisioning

import (
	"strconv"

	corev1 "k8s.io/api/core/v1"
	"k8s.io/apimachinery/pkg/api/resource"

	v1 "sigs.k8s.io/karpenter/pkg/apis/v1"
	opopts "sigs.k8s.io/karpenter/pkg/operator/options"
	"sigs.k8s.io/karpenter/pkg/verifrt"
)

type qPod struct {
	pod       *corev1.Pod
	cpu       resource.Quantity
	zoneOK    func(string) bool
	ctOK      func(string) bool
	tolerates bool
	hostPort  bool
}

func qMakePod(w *pwWorld, i int, shapes, taints bool) *qPod {
	name := "pending-" + strconv.Itoa(i)
	q := &qPod{cpu: verifrt.MilliQuantity(name+".cpu", 1, 16000)}
	q.pod = w.addPod(name, "", q.cpu)
	all := func(string) bool { return true }
	q.zoneOK, q.ctOK = all, all
	shape := 0
	if shapes {
		shape = verifrt.Choice(name+".shape", 0, 4)
		// quick tier: the second pod takes the shapes none, zone selector, host port
		if i == 1 && verifrt.Bound("fullShapes", 0, 1) == 0 {
			verifrt.Assume(shape == 0 || shape == 1 || shape == 4)
		}
	}
	switch shape {
	case 1:
		q.pod.Spec.NodeSelector = map[string]string{corev1.LabelTopologyZone: "zone-2"}
		q.zoneOK = func(z string) bool { return z == "zone-2" }
	case 2:
		q.pod.Spec.NodeSelector = map[string]string{v1.CapacityTypeLabelKey: v1.CapacityTypeSpot}
		q.ctOK = func(c string) bool { return c == v1.CapacityTypeSpot }
	case 3:
		q.pod.Spec.Affinity = &corev1.Affinity{NodeAffinity: &corev1.NodeAffinity{RequiredDuringSchedulingIgnoredDuringExecution: &corev1.NodeSelector{NodeSelectorTerms: []corev1.NodeSelectorTerm{
			{MatchExpressions: []corev1.NodeSelectorRequirement{{Key: corev1.LabelTopologyZone, Operator: corev1.NodeSelectorOpNotIn, Values: []string{"zone-2"}}}}}}}}
		q.zoneOK = func(z string) bool { return z != "zone-2" }
	case 4:
		q.hostPort = true
		q.pod.Spec.Containers[0].Ports = []corev1.ContainerPort{{HostPort: 8080, ContainerPort: 8080, Protocol: corev1.ProtocolTCP}}
	}
	if taints {
		// the only taint in play is dedicated=x:NoSchedule
		maxShape := 4
		if i == 1 {
			maxShape = verifrt.Bound("secondPodTolerationShapes", 1, 4) // quick tier: none or matching
		}
		switch verifrt.Choice(name+".toleration", 0, maxShape) {
		case 1:
			q.tolerates = true
			q.pod.Spec.Tolerations = []corev1.Toleration{{Key: "dedicated", Operator: corev1.TolerationOpExists, Effect: corev1.TaintEffectNoSchedule}}
		case 2: // key-less Exists for another effect
			q.pod.Spec.Tolerations = []corev1.Toleration{{Operator: corev1.TolerationOpExists, Effect: corev1.TaintEffectNoExecute}}
		case 3: // right key, wrong value
			q.pod.Spec.Tolerations = []corev1.Toleration{{Key: "dedicated", Operator: corev1.TolerationOpEqual, Value: "y", Effect: corev1.TaintEffectNoSchedule}}
		case 4: // tolerates everything
			q.tolerates = true
			q.pod.Spec.Tolerations = []corev1.Toleration{{Operator: corev1.TolerationOpExists}}
		}
	}
	return q
}

func VerifC01_PassPlacementsAreFeasible() {
	w := pwNew(&opopts.Options{})
	pool := w.addPool("pool-1", 0)
	// quick tier: sweep 0 varies the pods' node constraints and offering availability, sweep 1 taints and tolerations;
	// the thorough tier widens each sweep (all shapes for both pods, all four availabilities, all toleration shapes)
	// (the product of both sweeps does not finish within the thorough budget; the thorough tier widens each sweep instead)
	sweep := verifrt.Choice("sweep", 0, 1)
	shapes, taints := sweep != 1, sweep != 0
	taint := corev1.Taint{Key: "dedicated", Value: "x", Effect: corev1.TaintEffectNoSchedule}
	poolTainted := taints && verifrt.Choice("pool.tainted", 0, 1) == 1
	if poolTainted {
		pool.Spec.Template.Spec.Taints = []corev1.Taint{taint}
	}
	fullAvail := verifrt.Bound("fullAvailability", 0, 1) == 1
	av := func(l string) bool {
		// quick tier: the on-demand offerings are always available, the spot ones symbolically
		if !shapes || (!fullAvail && (l == "it-a.z1" || l == "it-b.z2")) {
			return true
		}
		return verifrt.Bool(l + ".available")
	}
		override := ""
	w.addType("it-a", verifrt.MilliQuantity("it-a.cpu", 0, 16000), []pwOffer{{zone: "zone-1", ct: v1.CapacityTypeOnDemand, price: 2, available: av("it-a.z1")}, {zone: "zone-2", ct: v1.CapacityTypeSpot, price: 1, available: av("it-a.z2"), overrideCPU: override}})
	w.addType("it-b", verifrt.MilliQuantity("it-b.cpu", 0, 16000), []pwOffer{{zone: "zone-2", ct: v1.CapacityTypeOnDemand, price: 4, available: av("it-b.z2")}, {zone: "zone-1", ct: v1.CapacityTypeSpot, price: 3, available: av("it-b.z1")}})

	alloc := verifrt.MilliQuantity("node.cpu", 0, 16000)
	node, _ := w.addNode("node-1", "pool-1", "it-a", v1.CapacityTypeOnDemand, "zone-1", pwList(alloc), pwInitialized)
	nodeTainted := taints && verifrt.Choice("node.tainted", 0, 1) == 1
	if nodeTainted {
		node.Spec.Taints = []corev1.Taint{taint}
		verifrt.Assert(w.cluster.UpdateNode(w.ctx, node) == nil, "the node update is accepted by cluster state")
	}
	pods := []*qPod{qMakePod(w, 0, shapes, taints), qMakePod(w, 1, shapes, taints)}
	w.deliver()

	results, err := w.prov.Schedule(w.ctx)
	verifrt.Assert(err == nil, "the scheduling pass completes")
	verifrt.Reach("pass")

	// ---- the existing node ----
	onNode, portsOnNode := resource.Quantity{}, 0
	for _, q := range pods {
		pl, cnt := pwFind(results, q.pod.UID)
		verifrt.Assert(cnt <= 1, "a pod is placed at most once")
		verifrt.Assert(cnt == 1 || pl.err != nil, "a pod that is not placed is reported with an error")
		if pl.existing == "" {
			continue
		}
		verifrt.Reach("on-existing")
		onNode.Add(q.cpu)
		verifrt.Assert(q.zoneOK("zone-1") && q.ctOK(v1.CapacityTypeOnDemand), "a pod is placed on an existing node only if the node's labels satisfy its required node constraints")
		verifrt.Assert(!nodeTainted || q.tolerates, "a pod is placed on an existing node only if it tolerates the node's taints")
		if q.hostPort {
			portsOnNode++
		}
	}
	verifrt.Assert(onNode.Cmp(alloc) <= 0, "the summed requests placed on an existing node fit its allocatable")
	verifrt.Assert(portsOnNode <= 1, "two pods asking for the same host port never share a node")

	// ---- new NodeClaims ----
	for _, nc := range results.NewNodeClaims {
		verifrt.Reach("new-nodeclaim")
		sum, ports := resource.Quantity{}, 0
		var mine []*qPod
		for _, q := range pods {
			for _, p := range nc.Pods {
				if p.UID == q.pod.UID {
					mine = append(mine, q)
					sum.Add(q.cpu)
					if q.hostPort {
						ports++
					}
					verifrt.Assert(!poolTainted || q.tolerates, "a pod is placed on a new NodeClaim only if it tolerates the NodePool's taints")
				}
			}
		}
		verifrt.Assert(len(mine) == len(nc.Pods) && len(mine) > 0, "a new NodeClaim carries only pods of this pass")
		verifrt.Assert(ports <= 1, "two pods asking for the same host port never share a NodeClaim")
		verifrt.Assert(len(nc.InstanceTypeOptions) > 0, "a new NodeClaim has at least one launch option")
		zr, cr := nc.Requirements.Get(corev1.LabelTopologyZone), nc.Requirements.Get(v1.CapacityTypeLabelKey)
		for _, it := range nc.InstanceTypeOptions {
			t := w.typeOf(it)
			verifrt.Assert(t != nil, "launch options come from the catalogue")
			if t == nil {
				continue
			}
			launchable, room := false, false
			for _, o := range t.offers {
				if !zr.Has(o.zone) || !cr.Has(o.ct) {
					continue
				}
				admitted := true
				for _, q := range mine {
					admitted = admitted && q.zoneOK(o.zone) && q.ctOK(o.ct)
				}
				verifrt.Assert(!o.available || admitted, "every offering a new NodeClaim may be launched into satisfies the required node constraints of each of its pods")
				launchable = launchable || o.available
				cpuHere := t.cpuOf(o)
				fitsHere := sum.Cmp(cpuHere) <= 0
				room = room || (o.available && fitsHere)
			}
			verifrt.Assert(launchable, "every launch option has an available offering compatible with the NodeClaim's requirements")
			verifrt.Assert(room, "for every instance type a new NodeClaim may be launched as, some available compatible offering has allocatable for the summed requests of its pods")
		}
	}
}

// Offerings with a capacity override form allocatable groups of their own: an instance type stays a launch option only
// if one and the same available, compatible offering also has the room.
func VerifC01_PassCapacityOverride() {
	w := pwNew(&opopts.Options{})
	w.addPool("pool-1", 0)
	av := func(l string) bool { return verifrt.Bool(l + ".available") }
	w.addType("it-a", verifrt.MilliQuantity("it-a.cpu", 0, 16000), []pwOffer{{zone: "zone-1", ct: v1.CapacityTypeOnDemand, price: 2, available: av("it-a.z1")}, {zone: "zone-2", ct: v1.CapacityTypeOnDemand, price: 1, available: av("it-a.z2"), overrideCPU: "1"}})
	w.addType("it-b", verifrt.MilliQuantity("it-b.cpu", 0, 16000), []pwOffer{{zone: "zone-2", ct: v1.CapacityTypeOnDemand, price: 4, available: true}, {zone: "zone-1", ct: v1.CapacityTypeOnDemand, price: 3, available: true, overrideCPU: "2"}})
	cpu := verifrt.MilliQuantity("pending.cpu", 1, 16000)
	p := w.addPod("pending-0", "", cpu)
	podZone := ""
	switch verifrt.Choice("pending.zone", 0, 2) {
	case 1:
		podZone = "zone-1"
	case 2:
		podZone = "zone-2"
	}
	if podZone != "" {
		p.Spec.NodeSelector = map[string]string{corev1.LabelTopologyZone: podZone}
	}
	w.deliver()
	results, err := w.prov.Schedule(w.ctx)
	verifrt.Assert(err == nil, "the scheduling pass completes")
	pl, _ := pwFind(results, p.UID)
	if pl.claim == nil {
		return
	}
	verifrt.Reach("on-new")
	zr := pl.claim.Requirements.Get(corev1.LabelTopologyZone)
	for _, it := range pl.claim.InstanceTypeOptions {
		t := w.typeOf(it)
		room := false
		for _, o := range t.offers {
			if !zr.Has(o.zone) || (podZone != "" && o.zone != podZone) {
				continue
			}
			cpuHere := t.cpuOf(o)
			fitsHere := cpu.Cmp(cpuHere) <= 0
			room = room || (o.available && fitsHere)
		}
		verifrt.Assert(room, "for every instance type a new NodeClaim may be launched as, some available compatible offering has allocatable for the pod (offerings with a capacity override count with their own capacity)")
	}
}
