//go:build verif

// verif:dir pkg/controllers/provisioning/scheduling
//
// C01 (new NodeClaim, one step) — whenever a pod is accepted onto a NodeClaim about to be created, the placement
// is admissible under Kubernetes scheduling rules for every instance type the NodeClaim may still be launched
// as, using some available offering compatible with the NodeClaim's requirements: required node constraints,
// taints/tolerations, host ports and summed resource requests including daemonset overhead within allocatable
// (DESIGN §7 C01-1). One inductive step: a NodeClaim that already carries symbolic requests, a pod with symbolic
// requests, CanAdd followed by Add.
//
// verif:assume C01: 2 instance types x 2 offerings over 2 zones and 2 capacity types with symbolic availability; the quick tier sweeps zone constraints and {custom label, taints, host ports} separately, the thorough tier takes their product; up to 2 daemon-overhead groups, 2 resources (cpu, memory) with quantities 0..10^6; topology constraints (C02), volume topology, DRA and minValues are outside this harness
// verif:pure ^sigs\.k8s\.io/karpenter/pkg/utils/resources\.(Fits|Cmp)$

package scheduling

import (
	"context"

	corev1 "k8s.io/api/core/v1"
	"k8s.io/apimachinery/pkg/api/resource"

	v1 "sigs.k8s.io/karpenter/pkg/apis/v1"
	"sigs.k8s.io/karpenter/pkg/cloudprovider"
	opopts "sigs.k8s.io/karpenter/pkg/operator/options"
	"sigs.k8s.io/karpenter/pkg/scheduling"
	"sigs.k8s.io/karpenter/pkg/utils/resources"
	"sigs.k8s.io/karpenter/pkg/verifrt"
)

const aCustomKey = "example.com/team"

type aOffer struct {
	zone, capacityType string
	available          bool
}

type aType struct {
	it       *cloudprovider.InstanceType
	offers   []aOffer
	cpu, mem resource.Quantity // allocatable as the harness computes it: capacity - reserved
	group    int
}

func aQty(label string) resource.Quantity { return verifrt.Quantity(label, 0, 1000000) }

// aMakeType: the offering structure (zone, capacity type) is fixed per type, availability is a symbolic bool.
func aMakeType(name string, group int, offers []aOffer) *aType {
	t := &aType{group: group}
	capCPU, capMem, resCPU := aQty(name+".capacity.cpu"), aQty(name+".capacity.memory"), aQty(name+".reserved.cpu")
	t.cpu = capCPU.DeepCopy()
	t.cpu.Sub(resCPU)
	t.mem = capMem
	var ofs cloudprovider.Offerings
	zoneSet, ctSet := map[string]bool{}, map[string]bool{}
	for _, o := range offers {
		o.available = verifrt.Bool(name + ".available")
		t.offers = append(t.offers, o)
		zoneSet[o.zone], ctSet[o.capacityType] = true, true
		ofs = append(ofs, &cloudprovider.Offering{Available: o.available, Price: 1, Requirements: scheduling.NewRequirements(
			scheduling.NewRequirement(corev1.LabelTopologyZone, corev1.NodeSelectorOpIn, o.zone),
			scheduling.NewRequirement(v1.CapacityTypeLabelKey, corev1.NodeSelectorOpIn, o.capacityType),
		)})
	}
	var zs, cs []string
	for _, z := range []string{"zone-1", "zone-2"} {
		if zoneSet[z] {
			zs = append(zs, z)
		}
	}
	for _, c := range []string{v1.CapacityTypeOnDemand, v1.CapacityTypeSpot} {
		if ctSet[c] {
			cs = append(cs, c)
		}
	}
	t.it = &cloudprovider.InstanceType{
		Name: name,
		Requirements: scheduling.NewRequirements(
			scheduling.NewRequirement(corev1.LabelInstanceTypeStable, corev1.NodeSelectorOpIn, name),
			scheduling.NewRequirement(corev1.LabelTopologyZone, corev1.NodeSelectorOpIn, zs...),
			scheduling.NewRequirement(v1.CapacityTypeLabelKey, corev1.NodeSelectorOpIn, cs...),
		),
		Offerings: ofs,
		Capacity:  corev1.ResourceList{corev1.ResourceCPU: capCPU, corev1.ResourceMemory: capMem, corev1.ResourcePods: resource.MustParse("110")},
		Overhead:  &cloudprovider.InstanceTypeOverhead{KubeReserved: corev1.ResourceList{corev1.ResourceCPU: resCPU}},
	}
	return t
}

type aPod struct {
	pod       *corev1.Pod
	zoneOK    func(string) bool // the pod's original required node constraint on the zone (any OR-ed term)
	firstTerm func(string) bool // ... of its first required term (what one CanAdd attempt enforces)
	custom    string            // required value of the custom label ("" = none)
	tolerates bool
	hostPort  bool
	cpu, mem  resource.Quantity
}

// aMakePod: sweep 0 varies the zone constraint, sweep 1 the custom label, toleration and host port.
func aMakePod(sweep int) *aPod {
	p := &corev1.Pod{}
	p.Name, p.Namespace, p.UID = "pod-1", "default", "uid-pod-1"
	a := &aPod{pod: p, cpu: aQty("pod.cpu"), mem: aQty("pod.memory")}
	c := corev1.Container{Name: "main"}
	c.Resources.Requests = corev1.ResourceList{corev1.ResourceCPU: a.cpu, corev1.ResourceMemory: a.mem}
	all := func(string) bool { return true }
	a.zoneOK, a.firstTerm = all, all
	in := func(vals ...string) func(string) bool {
		return func(z string) bool {
			for _, v := range vals {
				if v == z {
					return true
				}
			}
			return false
		}
	}
	term := func(op corev1.NodeSelectorOperator, vals ...string) corev1.NodeSelectorTerm {
		return corev1.NodeSelectorTerm{MatchExpressions: []corev1.NodeSelectorRequirement{{Key: corev1.LabelTopologyZone, Operator: op, Values: vals}}}
	}
	required := func(terms ...corev1.NodeSelectorTerm) {
		p.Spec.Affinity = &corev1.Affinity{NodeAffinity: &corev1.NodeAffinity{RequiredDuringSchedulingIgnoredDuringExecution: &corev1.NodeSelector{NodeSelectorTerms: terms}}}
	}
	zoneShape := 0
	if sweep != 1 {
		zoneShape = verifrt.Choice("pod.zone", 0, 6)
	}
	switch zoneShape {
	case 1:
		p.Spec.NodeSelector = map[string]string{corev1.LabelTopologyZone: "zone-1"}
		a.zoneOK, a.firstTerm = in("zone-1"), in("zone-1")
	case 2:
		required(term(corev1.NodeSelectorOpNotIn, "zone-1"))
		a.zoneOK = func(z string) bool { return z != "zone-1" }
		a.firstTerm = a.zoneOK
	case 3: // two OR-ed terms: the first one is what this attempt uses
		required(term(corev1.NodeSelectorOpIn, "zone-3"), term(corev1.NodeSelectorOpIn, "zone-2"))
		a.zoneOK, a.firstTerm = in("zone-3", "zone-2"), in("zone-3")
	case 4:
		required(term(corev1.NodeSelectorOpIn, "zone-2", "zone-1"))
		a.zoneOK, a.firstTerm = in("zone-1", "zone-2"), in("zone-1", "zone-2")
	case 5: // node selector and a wider required affinity on the same key: both must hold
		p.Spec.NodeSelector = map[string]string{corev1.LabelTopologyZone: "zone-1"}
		required(term(corev1.NodeSelectorOpIn, "zone-2", "zone-1"))
		a.zoneOK, a.firstTerm = in("zone-1"), in("zone-1")
	case 6: // node selector and a contradicting required affinity: no zone satisfies the pod
		p.Spec.NodeSelector = map[string]string{corev1.LabelTopologyZone: "zone-1"}
		required(term(corev1.NodeSelectorOpIn, "zone-2"))
		a.zoneOK, a.firstTerm = in(), in()
	}
	if sweep != 0 && verifrt.Choice("pod.custom", 0, 1) == 1 {
		if p.Spec.NodeSelector == nil {
			p.Spec.NodeSelector = map[string]string{}
		}
		p.Spec.NodeSelector[aCustomKey] = "blue"
		a.custom = "blue"
	}
	if sweep != 0 {
		// the NodeClaim's only possible taint is dedicated=x:NoSchedule; Kubernetes: a toleration matches when its key is
		// empty (with Exists) or equal, its effect is empty or equal, and its operator is Exists or the values are equal
		switch verifrt.Choice("pod.toleration", 0, 5) {
		case 1:
			a.tolerates = true
			p.Spec.Tolerations = []corev1.Toleration{{Key: "dedicated", Operator: corev1.TolerationOpExists, Effect: corev1.TaintEffectNoSchedule}}
		case 2: // key-less Exists, but for another effect
			p.Spec.Tolerations = []corev1.Toleration{{Operator: corev1.TolerationOpExists, Effect: corev1.TaintEffectNoExecute}}
		case 3: // tolerates everything
			a.tolerates = true
			p.Spec.Tolerations = []corev1.Toleration{{Operator: corev1.TolerationOpExists}}
		case 4: // right key, wrong value
			p.Spec.Tolerations = []corev1.Toleration{{Key: "dedicated", Operator: corev1.TolerationOpEqual, Value: "y", Effect: corev1.TaintEffectNoSchedule}}
		case 5: // right key and value, any effect
			a.tolerates = true
			p.Spec.Tolerations = []corev1.Toleration{{Key: "dedicated", Operator: corev1.TolerationOpEqual, Value: "x"}}
		}
	}
	if sweep != 0 && verifrt.Choice("pod.hostPort", 0, 1) == 1 {
		a.hostPort = true
		c.Ports = []corev1.ContainerPort{{HostPort: 8080, ContainerPort: 8080, Protocol: corev1.ProtocolTCP}}
	}
	p.Spec.Containers = []corev1.Container{c}
	return a
}

func VerifC01_NodeClaimStep() {
	ctx := opopts.ToContext(context.Background(), &opopts.Options{})
	sweep := 2
	if verifrt.Bound("fullProduct", 0, 1) == 0 {
		sweep = verifrt.Choice("sweep", 0, 1)
	}
	groupB := 0
	if sweep != 0 {
		groupB = verifrt.Choice("it-b.group", 0, 1)
	}
	types := []*aType{
		aMakeType("it-a", 0, []aOffer{{zone: "zone-1", capacityType: v1.CapacityTypeOnDemand}, {zone: "zone-2", capacityType: v1.CapacityTypeSpot}}),
		aMakeType("it-b", groupB, []aOffer{{zone: "zone-2", capacityType: v1.CapacityTypeOnDemand}, {zone: "zone-1", capacityType: v1.CapacityTypeSpot}}),
	}
	// daemon-overhead groups: group 1 (if used) has a daemon that already occupies host port 8080 and asks for more cpu
	overhead := []resource.Quantity{aQty("daemon.cpu.group0"), aQty("daemon.cpu.group1")}
	groups := []DaemonOverheadGroup{{DaemonOverhead: corev1.ResourceList{corev1.ResourceCPU: overhead[0]}, HostPortUsage: scheduling.NewHostPortUsage()}}
	if types[1].group == 1 {
		hp := scheduling.NewHostPortUsage()
		daemon := &corev1.Pod{}
		daemon.Name, daemon.Namespace = "daemon", "kube-system"
		daemon.Spec.Containers = []corev1.Container{{Ports: []corev1.ContainerPort{{HostPort: 8080, ContainerPort: 8080, Protocol: corev1.ProtocolTCP}}}}
		hp.Add(daemon, scheduling.GetHostPorts(daemon))
		groups = append(groups, DaemonOverheadGroup{DaemonOverhead: corev1.ResourceList{corev1.ResourceCPU: overhead[1]}, HostPortUsage: hp})
	}
	var its []*cloudprovider.InstanceType
	for _, t := range types {
		its = append(its, t.it)
		groups[t.group].InstanceTypes = append(groups[t.group].InstanceTypes, t.it)
	}
	// the NodeClaim: template requirements (zones, capacity type on-demand or any, custom label defined or not), one taint or none
	n := &NodeClaim{topology: &Topology{}, daemonOverheadGroups: groups, hostname: "host-1", reservedOfferings: cloudprovider.Offerings{}, reservationManager: NewReservationManager(nil)}
	n.NodePoolName = "pool-1"
	n.InstanceTypeOptions = its
	n.Requirements = scheduling.NewRequirements(scheduling.NewRequirement(corev1.LabelHostname, corev1.NodeSelectorOpIn, "host-1"))
	onDemandOnly := sweep != 1 && verifrt.Choice("pool.onDemandOnly", 0, 1) == 1
	if onDemandOnly {
		n.Requirements.Add(scheduling.NewRequirement(v1.CapacityTypeLabelKey, corev1.NodeSelectorOpIn, v1.CapacityTypeOnDemand))
	}
	customDefined := 0 // undefined, In [blue green], In [green]
	if sweep != 0 {
		customDefined = verifrt.Choice("pool.customLabel", 0, 2)
	}
	switch customDefined {
	case 1:
		n.Requirements.Add(scheduling.NewRequirement(aCustomKey, corev1.NodeSelectorOpIn, "blue", "green"))
	case 2:
		n.Requirements.Add(scheduling.NewRequirement(aCustomKey, corev1.NodeSelectorOpIn, "green"))
	}
	tainted := sweep != 0 && verifrt.Choice("pool.tainted", 0, 1) == 1
	if tainted {
		n.Spec.Taints = []corev1.Taint{{Key: "dedicated", Value: "x", Effect: corev1.TaintEffectNoSchedule}}
	}
	already := corev1.ResourceList{corev1.ResourceCPU: aQty("nodeclaim.requests.cpu"), corev1.ResourceMemory: aQty("nodeclaim.requests.memory")}
	n.Spec.Resources.Requests = already

	x := aMakePod(sweep)
	pd := &PodData{Requests: resources.RequestsForPods(x.pod), Requirements: scheduling.NewPodRequirements(x.pod), StrictRequirements: scheduling.NewStrictPodRequirements(x.pod)}
	reqs, remaining, ofs, _, err := n.CanAdd(ctx, x.pod, pd, false, nil)
	if err != nil {
		return
	}
	verifrt.Reach("accepted")
	n.Add(ctx, x.pod, pd, reqs, remaining, ofs, nil, nil)

	// ---- the placement is admissible on every remaining launch option ----
	verifrt.Assert(!tainted || x.tolerates, "a pod is placed only on NodeClaims whose taints it tolerates")
	verifrt.Assert(x.custom == "" || (customDefined == 1 && n.Requirements.Get(aCustomKey).Has("blue") && !n.Requirements.Get(aCustomKey).Has("green")),
		"a required custom label is satisfied only by a NodeClaim that defines the key and is narrowed to the required value")
	verifrt.Assert(len(n.InstanceTypeOptions) > 0, "an accepted pod leaves at least one launch option")
	total := corev1.ResourceList{}
	for _, k := range []corev1.ResourceName{corev1.ResourceCPU, corev1.ResourceMemory} {
		q := already[k]
		sum := q.DeepCopy()
		if k == corev1.ResourceCPU {
			sum.Add(x.cpu)
		} else {
			sum.Add(x.mem)
		}
		total[k] = sum
		got := n.Spec.Resources.Requests[k]
		verifrt.Assert(got.Cmp(sum) == 0, "the NodeClaim's requests are the sum of the requests of the pods placed on it")
	}
	for _, it := range n.InstanceTypeOptions {
		var t *aType
		for _, c := range types {
			if c.it == it {
				t = c
			}
		}
		verifrt.Assert(t != nil, "launch options are a subset of the template's instance types")
		verifrt.Assert(!(x.hostPort && t.group == 1), "no launch option belongs to a daemon group whose host ports clash with the pod")
		need := total[corev1.ResourceCPU].DeepCopy()
		need.Add(overhead[t.group])
		mem := total[corev1.ResourceMemory]
		fitsOn := need.Cmp(t.cpu) <= 0 && mem.Cmp(t.mem) <= 0
		// some available offering compatible with the NodeClaim's final requirements, in a zone the pod's required constraints admit
		launchable := false
		zr, cr := n.Requirements.Get(corev1.LabelTopologyZone), n.Requirements.Get(v1.CapacityTypeLabelKey)
		for _, o := range t.offers {
			ok := o.available && zr.Has(o.zone) && cr.Has(o.capacityType) && (!onDemandOnly || o.capacityType == v1.CapacityTypeOnDemand)
			if ok {
				launchable = true
				verifrt.Assert(x.zoneOK(o.zone), "every offering the NodeClaim may launch into satisfies the pod's required node constraints")
			}
		}
		verifrt.Assert(launchable, "every launch option has an available offering compatible with the NodeClaim's requirements")
		verifrt.Assert(fitsOn, "summed requests plus daemonset overhead fit the allocatable of every launch option")
		verifrt.Reach("option-checked")
	}
}
