//go:build verif

// verif:dir pkg/controllers/provisioning
//
// C01 (whole pass, DaemonSet overhead) — Provisioner.Schedule with a DaemonSet whose pod carries a required node
// affinity of one or two OR-ed terms: a pending pod is accepted onto the existing node only if its request fits next to
// the bound pods and the DaemonSet pod Kubernetes will still place there (any of the OR-ed terms matching the node), and
// onto a new NodeClaim only if, for every launch option, some available compatible offering leaves room for the pod
// plus the DaemonSet pod that will run in that offering's zone.
//
// verif:assume C01: one NodePool, one instance type (16 cpu) offered in zone-1 and zone-2, one registered node in zone-1 of symbolic allocatable on which the DaemonSet pod is not running yet; one DaemonSet of symbolic cpu request whose required node affinity is none, one zone term, or two OR-ed zone terms in either order; one pending pod of symbolic cpu with an optional zone selector
// verif:pure ^sigs\.k8s\.io/karpenter/pkg/utils/resources\.(Fits|Cmp)$
// verif:pure ^\(\*sigs\.k8s\.io/karpenter/pkg/scheduling\.Requirement\)\.(Has|Len|Operator)$

package provisioning

import (
	appsv1 "k8s.io/api/apps/v1"
	corev1 "k8s.io/api/core/v1"
	"k8s.io/apimachinery/pkg/api/resource"
	metav1 "k8s.io/apimachinery/pkg/apis/meta/v1"

	v1 "sigs.k8s.io/karpenter/pkg/apis/v1"
	opopts "sigs.k8s.io/karpenter/pkg/operator/options"
	"sigs.k8s.io/karpenter/pkg/verifrt"
)

func VerifC01_PassCountsDaemonOverhead() {
	w := pwNew(&opopts.Options{})
	w.addPool("pool-1", 0)
	w.addType("it-l", resource.MustParse("16"), []pwOffer{{zone: "zone-1", ct: v1.CapacityTypeOnDemand, price: 1, available: true}, {zone: "zone-2", ct: v1.CapacityTypeOnDemand, price: 1, available: true}})
	alloc := verifrt.MilliQuantity("node.cpu", 0, 16000)
	w.addNode("node-1", "pool-1", "it-l", v1.CapacityTypeOnDemand, "zone-1", pwList(alloc), pwInitialized)

	dcpu := verifrt.MilliQuantity("daemon.cpu", 0, 16000)
	ds := &appsv1.DaemonSet{}
	ds.Name, ds.Namespace, ds.UID = "agent", "kube-system", "uid-ds-agent"
	ds.Spec.Selector = &metav1.LabelSelector{MatchLabels: map[string]string{"app": "agent"}}
	ds.Spec.Template.Labels = map[string]string{"app": "agent"}
	ds.Spec.Template.Spec.Containers = []corev1.Container{{Name: "agent", Resources: corev1.ResourceRequirements{Requests: corev1.ResourceList{corev1.ResourceCPU: dcpu}}}}
	term := func(z string) corev1.NodeSelectorTerm {
		return corev1.NodeSelectorTerm{MatchExpressions: []corev1.NodeSelectorRequirement{{Key: corev1.LabelTopologyZone, Operator: corev1.NodeSelectorOpIn, Values: []string{z}}}}
	}
	var terms []corev1.NodeSelectorTerm
	switch verifrt.Choice("daemon.affinity", 0, 4) {
	case 1:
		terms = []corev1.NodeSelectorTerm{term("zone-1")}
	case 2:
		terms = []corev1.NodeSelectorTerm{term("zone-2")}
	case 3:
		terms = []corev1.NodeSelectorTerm{term("zone-2"), term("zone-1")}
	case 4:
		terms = []corev1.NodeSelectorTerm{term("zone-1"), term("zone-2")}
	}
	if terms != nil {
		ds.Spec.Template.Spec.Affinity = &corev1.Affinity{NodeAffinity: &corev1.NodeAffinity{RequiredDuringSchedulingIgnoredDuringExecution: &corev1.NodeSelector{NodeSelectorTerms: terms}}}
	}
	w.kc.DaemonSets = append(w.kc.DaemonSets, ds)
	// Kubernetes: the DaemonSet pod runs in a zone when any of the OR-ed terms admits it
	daemonIn := func(z string) bool {
		if terms == nil {
			return true
		}
		for _, t := range terms {
			if t.MatchExpressions[0].Values[0] == z {
				return true
			}
		}
		return false
	}
	// C01-F1: only the first OR-ed term is evaluated against an existing node
	verifrt.KnownFinding("C01-F1", len(terms) == 2)

	pcpu := verifrt.MilliQuantity("pending.cpu", 1, 16000)
	p := w.addPod("pending-0", "", pcpu)
	podZone := ""
	switch verifrt.Choice("pending.zone", 0, 2) {
	case 1:
		podZone = "zone-1"
	case 2:
		podZone = "zone-2"
	}
	if podZone != "" {
		p.Spec.NodeSelector = map[string]string{corev1.LabelTopologyZone: podZone}
	}
	w.deliver()

	results, err := w.prov.Schedule(w.ctx)
	verifrt.Assert(err == nil, "the scheduling pass completes")
	pl, cnt := pwFind(results, p.UID)
	verifrt.Assert(cnt <= 1, "a pod is placed at most once")
	if pl.existing != "" {
		verifrt.Reach("on-existing")
		need := pcpu.DeepCopy()
		if daemonIn("zone-1") {
			need.Add(dcpu)
		}
		verifrt.Assert(need.Cmp(alloc) <= 0, "a pod is accepted onto an existing node only if it fits next to the DaemonSet pods Kubernetes will still place there")
	}
	if pl.claim != nil {
		verifrt.Reach("on-new")
		zr := pl.claim.Requirements.Get(corev1.LabelTopologyZone)
		for _, it := range pl.claim.InstanceTypeOptions {
			t := w.typeOf(it)
			room := false
			for _, o := range t.offers {
				if !zr.Has(o.zone) || (podZone != "" && o.zone != podZone) {
					continue
				}
				need := pcpu.DeepCopy()
				if daemonIn(o.zone) {
					need.Add(dcpu)
				}
				fitsHere := need.Cmp(t.cpu) <= 0
				room = room || fitsHere
			}
			verifrt.Assert(room, "every launch option has a compatible offering with room for the pod and the DaemonSet pod of that zone")
		}
	}
}
