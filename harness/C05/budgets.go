//go:build verif

// verif:dir pkg/apis/v1
//
// C05 (budget arithmetic) — a budget is active during [hit, hit+duration) after
// each hit of its cron schedule (always, if it has none); percentages are taken
// of the pool's nodes rounding up; a budget applies to a reason if it lists it
// or lists none; a malformed budget allows zero; the most restrictive
// applicable active budget wins (DESIGN §7 C05-1/2).
//
// verif:assume C05: cron schedules are drawn from a list with a uniform period (every minute, */15, hourly at :00 and :30, daily 02:30, @daily); robfig/cron's parser and calendar arithmetic for other expressions are outside the claim; the engine's Next() model for these schedules is validated against the real library by native replay
// verif:assume C05: ceil(p*n/100) is computed exactly (integer arithmetic) for p in 0..100 and n <= 10^6, where apimachinery's float64 rounding is exact
// verif:assume C05: the clock does not advance inside one IsActive evaluation; instants lie between 1970-01-03 and 2043
// verif:pure ^sigs\.k8s\.io/karpenter/pkg/apis/v1\.(xActive|xScaled)$

package v1

import (
	"math"
	"strconv"
	"time"

	metav1 "k8s.io/apimachinery/pkg/apis/meta/v1"
	"k8s.io/utils/clock"

	"sigs.k8s.io/karpenter/pkg/verifrt"
)

// xClock is a frozen clock: every Now() returns the same instant.
type xClock struct {
	clock.Clock
	now time.Time
}

func (c xClock) Now() time.Time                  { return c.now }
func (c xClock) Since(t time.Time) time.Duration { return c.now.Sub(t) }

type xSched struct {
	spec           string
	period, offset time.Duration
}

var xSchedules = []xSched{
	{"* * * * *", time.Minute, 0},
	{"*/15 * * * *", 15 * time.Minute, 0},
	{"0 * * * *", time.Hour, 0},
	{"30 * * * *", time.Hour, 30 * time.Minute},
	{"30 2 * * *", 24 * time.Hour, 2*time.Hour + 30*time.Minute},
	{"@daily", 24 * time.Hour, 0},
}

func xNow() time.Time {
	t := verifrt.Time("now")
	verifrt.Assume(t.After(time.Unix(2*86400, 0)))
	return t
}

// xActive: the statement's definition — some hit h of the schedule has h <= now < h+d.
// For hits offset+k*period the latest hit not after now is the only candidate.
func xActive(s xSched, now time.Time, d time.Duration) bool {
	rel := now.UnixNano() - int64(s.offset)
	h0 := rel / int64(s.period) * int64(s.period) // rel >= 0: truncation is floor
	return rel-h0 < int64(d)
}

func VerifC05_IsActive() {
	now := xNow()
	c := xClock{now: now}
	switch verifrt.Choice("shape", 0, 2) {
	case 0:
		b := Budget{Nodes: "1"}
		active, err := b.IsActive(c)
		verifrt.Assert(err == nil && active, "a budget without a schedule is always active")
	case 1:
		k := verifrt.Choice("schedule", 0, len(xSchedules)-1)
		s := xSchedules[k]
		d := verifrt.Duration("duration", 0, 36*time.Hour)
		b := Budget{Nodes: "1", Schedule: &s.spec, Duration: &metav1.Duration{Duration: d}}
		active, err := b.IsActive(c)
		want := xActive(s, now, d)
		verifrt.Observe("active", active)
		verifrt.Assert(err == nil, "a well-formed schedule never errors")
		verifrt.Assert(active == want, "a scheduled budget is active exactly during [hit, hit+duration)")
		if active {
			verifrt.Reach("active-window")
		} else {
			verifrt.Reach("outside-window")
		}
	case 2:
		bad := "not a schedule"
		b := Budget{Nodes: "1", Schedule: &bad, Duration: &metav1.Duration{Duration: time.Hour}}
		active, err := b.IsActive(c)
		verifrt.Assert(err != nil && !active, "a malformed schedule is reported, not treated as active")
		n, err2 := b.GetAllowedDisruptions(c, verifrt.IntRange("nodes", 0, 1000000))
		verifrt.Assert(err2 != nil && n == 0, "a malformed budget allows zero disruptions")
	}
}

type xBudget struct {
	b         Budget
	badNodes  bool // the nodes value does not parse
	badSched  bool // the schedule does not parse
	always    bool // no schedule
	sched     xSched
	dur       time.Duration
	isPercent bool
	percent   int
	count     int
}

var xPercents = []int{0, 1, 33, 100}

func xGenBudget(tag string, atom int) xBudget {
	var x xBudget
	switch verifrt.Choice(tag+".nodes", 0, 2) {
	case 0: // a count, symbolic
		raw := verifrt.Atom(atom)
		n, err := strconv.Atoi(raw)
		verifrt.Assume(err == nil && n >= 0 && n <= 1000000)
		x.b.Nodes, x.count = raw, n
	case 1:
		x.isPercent = true
		x.percent = xPercents[verifrt.Choice(tag+".percent", 0, len(xPercents)-1)]
		x.b.Nodes = strconv.Itoa(x.percent) + "%"
	case 2:
		x.b.Nodes, x.badNodes = "abc", true
	}
	switch verifrt.Choice(tag+".schedule", 0, 2) {
	case 0:
		x.always = true
	case 1:
		x.sched = xSchedules[2]
		x.dur = verifrt.Duration(tag+".duration", 0, 3*time.Hour)
		x.b.Schedule, x.b.Duration = &x.sched.spec, &metav1.Duration{Duration: x.dur}
	case 2:
		bad := "61 * * *"
		x.b.Schedule, x.b.Duration = &bad, &metav1.Duration{Duration: time.Hour}
		x.badSched = true
	}
	switch verifrt.Choice(tag+".reasons", 0, 4) {
	case 1:
		x.b.Reasons = []DisruptionReason{}
	case 2:
		x.b.Reasons = []DisruptionReason{DisruptionReasonUnderutilized}
	case 3:
		x.b.Reasons = []DisruptionReason{DisruptionReasonDrifted}
	case 4:
		x.b.Reasons = []DisruptionReason{DisruptionReasonEmpty, DisruptionReasonUnderutilized}
	}
	return x
}

func xScaled(x xBudget, n int) int {
	if !x.isPercent {
		return x.count
	}
	return (x.percent*n + 99) / 100
}

func xApplies(x xBudget, reason DisruptionReason) bool {
	if len(x.b.Reasons) == 0 {
		return true
	}
	for _, r := range x.b.Reasons {
		if r == reason {
			return true
		}
	}
	return false
}

func VerifC05_AllowedByReason() {
	now := xNow()
	c := xClock{now: now}
	nb := verifrt.Choice("budgets", 0, 2) // three budgets (about 60^3 shapes) do not finish within the thorough budget
	np := &NodePool{}
	var xs []xBudget
	f1 := false
	anyError := false
	for i := 0; i < nb; i++ {
		x := xGenBudget("b"+strconv.Itoa(i), 10+i)
		xs = append(xs, x)
		np.Spec.Disruption.Budgets = append(np.Spec.Disruption.Budgets, x.b)
		f1 = f1 || (x.b.Reasons != nil && len(x.b.Reasons) == 0)
		// a budget whose schedule cannot be read fails closed; a budget that is not active imposes nothing, so an
		// unreadable nodes value only matters while the budget is active (weaker reading of "a malformed budget allows zero")
		act := x.always || (!x.badSched && xActive(x.sched, now, x.dur))
		anyError = anyError || x.badSched || (act && x.badNodes)
	}
	// C05-F1: a budget with `reasons: []` (non-nil, empty) is skipped instead of applying to every reason
	verifrt.KnownFinding("C05-F1", f1)
	reason := []DisruptionReason{DisruptionReasonUnderutilized, DisruptionReasonDrifted}[verifrt.Choice("reason", 0, 1)]
	n := verifrt.IntRange("nodes", 0, 1000000)

	want := math.MaxInt32
	for _, x := range xs {
		if !xApplies(x, reason) {
			continue
		}
		switch {
		case x.badSched:
			want = 0
		case x.always || xActive(x.sched, now, x.dur):
			s := xScaled(x, n)
			if x.badNodes {
				s = 0
			}
			if s < want {
				want = s
			}
		}
	}
	got, err := np.GetAllowedDisruptionsByReason(c, n, reason)
	verifrt.Observe("allowed", got)
	verifrt.Assert((err != nil) == anyError, "an error is reported exactly when a budget that has to be evaluated is malformed")
	verifrt.Assert(got == want, "allowed disruptions = the most restrictive active budget that applies to the reason (malformed: zero)")
	must := np.MustGetAllowedDisruptions(c, n, reason)
	verifrt.Assert(must <= want, "the value the disruption controller uses never exceeds the most restrictive applicable budget")
	verifrt.Assert(anyError || must == want, "without malformed budgets the controller uses exactly that value")
	if nb >= 2 {
		verifrt.Reach("two-budgets")
	}
}
