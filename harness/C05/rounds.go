//go:build verif

// verif:dir pkg/controllers/disruption
//
// C05 (methods, validation, consecutive rounds) — the disruption controller's own round (GetCandidates,
// BuildDisruptionBudgetMapping, Method.ComputeCommands with its validator, Queue.StartCommand) is run twice for one
// method on a real cluster state: over both rounds the nodes newly selected for disruption, plus the pool's nodes that
// were already not ready or being deleted, never exceed the budget (a node count, or a percentage of the pool's
// initialized nodes rounded up). The first round's command is still in flight during the second.
//
// verif:assume C05: one NodePool with one always-active budget (symbolic count 0..4, or 0/25/50/100 percent), 3 (4) empty nodes, each healthy / not ready / already marked for deletion, all drifted and consolidatable; methods Emptiness and Drift (empty nodes need no replacement); the validation wait is a timer that fires at once
// verif:pure ^sigs\.k8s\.io/karpenter/pkg/utils/resources\.(Fits|Cmp)$
// verif:nondeterministic the scheduler breaks ties between equally good domains, NodeClaims and instance types by Go map iteration order; a native run may take another admissible behaviour than the symbolic path
// verif:assume sample comparison against the real build is restricted to the verdict for these harnesses: the real code breaks ties by randomised map iteration order, the engine iterates in insertion order; violations are always confirmed natively

package disruption

import (
	"context"
	"strconv"
	"time"

	"github.com/awslabs/operatorpkg/status"
	corev1 "k8s.io/api/core/v1"
	"k8s.io/apimachinery/pkg/api/resource"
	metav1 "k8s.io/apimachinery/pkg/apis/meta/v1"

	v1 "sigs.k8s.io/karpenter/pkg/apis/v1"
	"sigs.k8s.io/karpenter/pkg/cloudprovider"
	"sigs.k8s.io/karpenter/pkg/controllers/provisioning"
	"sigs.k8s.io/karpenter/pkg/controllers/state"
	opopts "sigs.k8s.io/karpenter/pkg/operator/options"
	"sigs.k8s.io/karpenter/pkg/scheduling"
	"sigs.k8s.io/karpenter/pkg/verifrt"
	"sigs.k8s.io/karpenter/pkg/verifrt/stubs"
)

func VerifC05_MethodRounds() {
	ctx := opopts.ToContext(context.Background(), &opopts.Options{IgnoreDRARequests: true, MinValuesPolicy: opopts.MinValuesPolicyStrict})
	now := time.Unix(1700000000, 0)
	clk := &stubs.Clock{Frozen: true}
	clk.Set(now)
	kc := &stubs.Client{Clock: clk}
	cp := stubs.ManagedProvider()
	cluster := state.NewCluster(clk, kc, cp)
	rec := &stubs.Recorder{}
	it := &cloudprovider.InstanceType{
		Name: "it-1",
		Requirements: scheduling.NewRequirements(
			scheduling.NewRequirement(corev1.LabelInstanceTypeStable, corev1.NodeSelectorOpIn, "it-1"),
			scheduling.NewRequirement(corev1.LabelTopologyZone, corev1.NodeSelectorOpIn, "zone-1"),
			scheduling.NewRequirement(v1.CapacityTypeLabelKey, corev1.NodeSelectorOpIn, v1.CapacityTypeOnDemand),
		),
		Offerings: cloudprovider.Offerings{&cloudprovider.Offering{Available: true, Price: 1, Requirements: scheduling.NewRequirements(
			scheduling.NewRequirement(corev1.LabelTopologyZone, corev1.NodeSelectorOpIn, "zone-1"),
			scheduling.NewRequirement(v1.CapacityTypeLabelKey, corev1.NodeSelectorOpIn, v1.CapacityTypeOnDemand),
		)}},
		Capacity: corev1.ResourceList{corev1.ResourceCPU: resource.MustParse("4"), corev1.ResourceMemory: resource.MustParse("8Gi"), corev1.ResourcePods: resource.MustParse("110")},
		Overhead: &cloudprovider.InstanceTypeOverhead{},
	}
	cp.InstanceTypes = []*cloudprovider.InstanceType{it}

	n := verifrt.Bound("nodes", 3, 4)
	pool := &v1.NodePool{}
	pool.Name, pool.UID = "pool-1", "uid-pool-1"
	pool.Spec.Template.Spec.NodeClassRef = &v1.NodeClassReference{Group: stubs.NodeClassGroup, Kind: stubs.NodeClassKind, Name: "default"}
	d := 30 * time.Second
	pool.Spec.Disruption.ConsolidateAfter = v1.NillableDuration{Duration: &d}
	pool.Spec.Disruption.ConsolidationPolicy = v1.ConsolidationPolicyWhenEmptyOrUnderutilized
	allowed := 0
	if verifrt.Choice("budget.kind", 0, 1) == 0 {
		allowed = verifrt.Choice("budget.count", 0, 4)
		pool.Spec.Disruption.Budgets = []v1.Budget{{Nodes: strconv.Itoa(allowed)}}
	} else {
		pct := []int{0, 25, 50, 100}[verifrt.Choice("budget.percent", 0, 3)]
		pool.Spec.Disruption.Budgets = []v1.Budget{{Nodes: strconv.Itoa(pct) + "%"}}
		allowed = (pct*n + 99) / 100 // every node below is initialized
	}
	pool.StatusConditions().SetTrue(status.ConditionReady)
	kc.Pools = append(kc.Pools, pool)

	already := 0
	var pids []string
	for i := 0; i < n; i++ {
		name := "node-" + strconv.Itoa(i)
		pid := "verif://i-" + strconv.Itoa(i)
		pids = append(pids, pid)
		class := verifrt.Choice(name+".class", 0, 2) // healthy, not ready, already marked for deletion
		ready := corev1.ConditionTrue
		if class == 1 {
			ready = corev1.ConditionFalse
		}
		node := stubs.Node(name, pid, ready)
		node.Labels = map[string]string{
			corev1.LabelInstanceTypeStable: "it-1", v1.CapacityTypeLabelKey: v1.CapacityTypeOnDemand, corev1.LabelTopologyZone: "zone-1",
			v1.NodePoolLabelKey: "pool-1", v1.NodeRegisteredLabelKey: "true", v1.NodeInitializedLabelKey: "true", corev1.LabelHostname: name,
		}
		node.Status.Capacity, node.Status.Allocatable = it.Capacity, it.Capacity
		nc := stubs.NodeClaim("claim-" + name)
		for k, v := range node.Labels {
			nc.Labels[k] = v
		}
		nc.Status.ProviderID, nc.Status.NodeName = pid, name
		nc.Status.Capacity, nc.Status.Allocatable = it.Capacity, it.Capacity
		nc.CreationTimestamp = metav1.Time{Time: now.Add(-2 * time.Hour)}
		nc.Finalizers = []string{v1.TerminationFinalizer}
		stubs.SetCondition(nc, v1.ConditionTypeInitialized, metav1.ConditionTrue, now.Add(-time.Hour))
		stubs.SetCondition(nc, v1.ConditionTypeConsolidatable, metav1.ConditionTrue, now.Add(-time.Minute))
		stubs.SetCondition(nc, v1.ConditionTypeDrifted, metav1.ConditionTrue, now.Add(-time.Minute))
		kc.Claims = append(kc.Claims, nc)
		kc.Nodes = append(kc.Nodes, node)
		cluster.UpdateNodeClaim(nc)
		verifrt.Assert(cluster.UpdateNode(ctx, node) == nil, "the node is accepted by cluster state")
		if class == 2 {
			cluster.MarkForDeletion(pid)
		}
		if class != 0 {
			already++
		}
	}
	// distinct nodes that are being deleted or not ready (a not-ready node that is selected is one disrupted node, not two)
	notReady := map[string]bool{}
	for i := 0; i < n; i++ {
		if kc.Nodes[i].Status.Conditions[0].Status != corev1.ConditionTrue {
			notReady[kc.Nodes[i].Spec.ProviderID] = true
		}
	}
	// (a NodeClaim the queue has already deleted in the API is being deleted, whether or not the informer has told the
	// cluster state yet)
	disrupted := func() int {
		k := 0
		for sn := range cluster.Nodes() {
			deleting := false
			for _, nc := range kc.Claims {
				if nc.Status.ProviderID == sn.ProviderID() && !nc.DeletionTimestamp.IsZero() {
					deleting = true
				}
			}
			if sn.MarkedForDeletion() || notReady[sn.ProviderID()] || deleting {
				k++
			}
		}
		return k
	}
	before := disrupted()
	verifrt.Assert(before == already, "ghost count of nodes already not ready or being deleted")

	prov := provisioning.NewProvisioner(kc, rec, cp, cluster, clk, nil, nil)
	queue := NewQueue(kc, rec, cluster, clk, prov)
	ctrl := NewController(clk, kc, prov, cp, rec, cluster, queue, nil)
	methods := NewMethods(clk, cluster, kc, prov, cp, rec, queue)
	var m Method
	if verifrt.Choice("method", 0, 1) == 0 {
		m = methods[0] // Emptiness
	} else {
		m = methods[2] // Drift
	}
	for round := 0; round < 2; round++ {
		_, err := ctrl.disrupt(ctx, m)
		verifrt.Assert(err == nil, "the disruption round completes")
		after := disrupted()
		if after > before {
			verifrt.Reach("selected")
			verifrt.Assert(after <= allowed, "nodes newly selected for disruption plus those already not ready or being deleted never exceed the budget, also over consecutive rounds")
		}
		// between the rounds the orchestration queue may carry out what it holds (the candidates' NodeClaims get their
		// deletionTimestamp in the API; the informer has not delivered that to the cluster state yet)
		if round == 0 && verifrt.Choice("queueRunsBetweenRounds", 0, 1) == 1 {
			for _, nc := range append([]*v1.NodeClaim{}, kc.Claims...) {
				if queue.HasAny(nc.Status.ProviderID) {
					_, qerr := queue.Reconcile(ctx, nc.DeepCopy())
					verifrt.Assert(qerr == nil, "the queue reconciles")
					verifrt.Reach("queue-ran")
				}
			}
			mid := disrupted()
			verifrt.Assert(mid <= allowed || mid <= before, "carrying out a command does not make more nodes count as disrupted than the budget allows")
			// what the next round may still select, as the controller itself computes it, plus what is already being
			// deleted or not ready stays within the budget (which of the nodes a later round picks depends on map order)
			mapping, merr := BuildDisruptionBudgetMapping(ctx, cluster, clk, kc, cp, rec, m.Reason())
			verifrt.Assert(merr == nil, "the budget mapping is built")
			verifrt.Assert(mapping["pool-1"]+mid <= allowed || mapping["pool-1"] == 0, "what may still be selected plus the nodes already being deleted or not ready never exceeds the budget while a finished command's deletions are still in flight")
		}
	}
}
