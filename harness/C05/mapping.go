//go:build verif

// verif:dir pkg/controllers/disruption
//
// C05 (budget mapping) — for each NodePool and reason, what may still be disrupted is the most restrictive
// active budget minus the pool's nodes that are already not ready or being deleted, never below zero;
// the percentage base is the pool's managed, initialized nodes whose instance is not already terminating
// (DESIGN §7 C05-3). The cluster state is built through the informer entry points (UpdateNodeClaim,
// UpdateNode, MarkForDeletion); the budget count is symbolic.
//
// verif:assume C05: up to 3 (quick) / 4 (thorough) nodes in up to 2 pools; budget counts in 0..1000; a node whose NodeClaim carries InstanceTerminating=True no longer belongs to the pool (the code documents this reading)

package disruption

import (
	"context"
	"strconv"
	"time"

	corev1 "k8s.io/api/core/v1"
	metav1 "k8s.io/apimachinery/pkg/apis/meta/v1"

	v1 "sigs.k8s.io/karpenter/pkg/apis/v1"
	"sigs.k8s.io/karpenter/pkg/controllers/state"
	"sigs.k8s.io/karpenter/pkg/verifrt"
	"sigs.k8s.io/karpenter/pkg/verifrt/stubs"
)

type mNode struct {
	pool                                          string
	managed, initialized, terminating, ready, marked bool
}

func VerifC05_BudgetMapping() {
	ctx := context.Background()
	clk := &stubs.Clock{Frozen: true}
	clk.Set(time.Unix(1700000000, 0))
	kc := &stubs.Client{Clock: clk}
	cp := stubs.ManagedProvider()
	cluster := state.NewCluster(clk, kc, cp)
	pools := []string{"pool-a", "pool-b"}
	allowed := map[string]int{}
	for i, p := range pools {
		raw := verifrt.Atom(10 + i)
		cnt, err := strconv.Atoi(raw)
		verifrt.Assume(err == nil && cnt >= 0 && cnt <= 1000)
		allowed[p] = cnt
		np := &v1.NodePool{}
		np.Name = p
		np.Spec.Template.Spec.NodeClassRef = &v1.NodeClassReference{Group: stubs.NodeClassGroup, Kind: stubs.NodeClassKind, Name: "default"}
		np.Spec.Disruption.Budgets = []v1.Budget{{Nodes: raw}}
		kc.Pools = append(kc.Pools, np)
	}
	n := verifrt.Choice("nodes", 0, verifrt.Bound("nodes", 3, 4))
	var ghost []mNode
	for i := 0; i < n; i++ {
		tag := "n" + strconv.Itoa(i)
		// one of seven classes per node: three ways of not counting towards the pool, four ways of counting
		g := mNode{pool: pools[verifrt.Choice(tag+".pool", 0, 1)], managed: true, initialized: true, ready: true}
		switch verifrt.Choice(tag+".class", 0, 6) {
		case 0:
			g.managed = false
		case 1:
			g.initialized = false
		case 2:
			g.terminating = true
		case 3: // healthy
		case 4:
			g.ready = false
		case 5:
			g.marked = true
		case 6:
			g.ready, g.marked = false, true
		}
		ghost = append(ghost, g)
		pid := "verif://i-" + strconv.Itoa(i)
		ready := corev1.ConditionFalse
		if g.ready {
			ready = corev1.ConditionTrue
		}
		node := stubs.Node("node-"+strconv.Itoa(i), pid, ready)
		node.Labels = map[string]string{corev1.LabelInstanceTypeStable: "it-1"}
		if g.managed {
			node.Labels[v1.NodePoolLabelKey] = g.pool
			node.Labels[v1.NodeRegisteredLabelKey] = "true"
			nc := stubs.NodeClaim("nc-" + strconv.Itoa(i))
			nc.Labels[v1.NodePoolLabelKey] = g.pool
			nc.Status.ProviderID = pid
			nc.Status.NodeName = node.Name
			if g.terminating {
				stubs.SetCondition(nc, v1.ConditionTypeInstanceTerminating, metav1.ConditionTrue, time.Unix(1699999000, 0))
			}
			kc.Claims = append(kc.Claims, nc)
			cluster.UpdateNodeClaim(nc)
		}
		if g.initialized {
			node.Labels[v1.NodeInitializedLabelKey] = "true"
		}
		kc.Nodes = append(kc.Nodes, node)
		verifrt.Assert(cluster.UpdateNode(ctx, node) == nil, "the node is accepted by cluster state")
		if g.marked {
			cluster.MarkForDeletion(pid)
		}
	}
	reason := v1.DisruptionReasonUnderutilized
	got, err := BuildDisruptionBudgetMapping(ctx, cluster, clk, kc, cp, &stubs.Recorder{}, reason)
	verifrt.Assert(err == nil, "the mapping is computed")
	for _, p := range pools {
		disrupting := 0
		for _, g := range ghost {
			if g.pool == p && g.managed && g.initialized && !g.terminating && (!g.ready || g.marked) {
				disrupting++
			}
		}
		want := allowed[p] - disrupting
		if want < 0 {
			want = 0
		}
		verifrt.Observe("mapping."+p, got[p])
		verifrt.Assert(got[p] == want, "remaining budget = allowed disruptions minus nodes already not ready or being deleted, never negative")
		if disrupting > 0 {
			verifrt.Reach("some-node-already-disrupting")
		}
	}
}
