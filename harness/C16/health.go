//go:build verif

// verif:dir pkg/controllers/node/health
//
// C16 (node repair) — a node is deleted only after an unhealthy condition has lasted the provider's toleration
// for that condition and only while at most 20% (rounded up) of the pool's nodes are unhealthy.
//
// verif:assume C16: at most 5 nodes in the pool and 2 repair policies; tolerations between 0 and 24h

package health

import (
	"context"
	"strconv"
	"time"

	corev1 "k8s.io/api/core/v1"
	metav1 "k8s.io/apimachinery/pkg/apis/meta/v1"

	v1 "sigs.k8s.io/karpenter/pkg/apis/v1"
	"sigs.k8s.io/karpenter/pkg/cloudprovider"
	"sigs.k8s.io/karpenter/pkg/verifrt"
	"sigs.k8s.io/karpenter/pkg/verifrt/stubs"
)

func VerifC16_NodeRepair() {
	clk := &stubs.Clock{}
	kc := &stubs.Client{Clock: clk, Faults: map[string]bool{"list": true, "get": true, "patch": true, "delete": true}}
	cp := stubs.ManagedProvider()
	tol := []time.Duration{verifrt.Duration("toleration0", 0, 24*time.Hour), verifrt.Duration("toleration1", 0, 24*time.Hour)}
	cp.Policies = []cloudprovider.RepairPolicy{
		{ConditionType: corev1.NodeReady, ConditionStatus: corev1.ConditionFalse, TolerationDuration: tol[0]},
		{ConditionType: "BadNode", ConditionStatus: corev1.ConditionTrue, TolerationDuration: tol[1]},
	}
	// the reconciled node
	node := stubs.Node("node-0", "verif://i-0", corev1.ConditionTrue)
	since := []time.Time{verifrt.Time("since0"), verifrt.Time("since1")}
	match := []bool{verifrt.Choice("unhealthy0", 0, 1) == 1, verifrt.Choice("unhealthy1", 0, 1) == 1}
	node.Status.Conditions = nil
	st0, st1 := corev1.ConditionTrue, corev1.ConditionFalse
	if match[0] {
		st0 = corev1.ConditionFalse
	}
	if match[1] {
		st1 = corev1.ConditionTrue
	}
	node.Status.Conditions = []corev1.NodeCondition{
		{Type: corev1.NodeReady, Status: st0, LastTransitionTime: metav1.Time{Time: since[0]}},
		{Type: "BadNode", Status: st1, LastTransitionTime: metav1.Time{Time: since[1]}},
	}
	nc := stubs.NodeClaim("nc-0")
	nc.Finalizers = []string{v1.TerminationFinalizer}
	nc.Status.ProviderID = node.Spec.ProviderID
	pooled := verifrt.Choice("pooled", 0, 1) == 1
	if !pooled {
		delete(nc.Labels, v1.NodePoolLabelKey)
	}
	kc.Claims = []*v1.NodeClaim{nc}
	kc.Nodes = []*corev1.Node{node}
	// the other nodes of the pool / cluster
	others := verifrt.Choice("otherNodes", 0, 4)
	unhealthyOthers := verifrt.Choice("otherUnhealthy", 0, others)
	for i := 0; i < others; i++ {
		st := corev1.ConditionTrue
		if i < unhealthyOthers {
			st = corev1.ConditionFalse
		}
		other := stubs.Node("node-"+strconv.Itoa(i+1), "verif://i-"+strconv.Itoa(i+1), st)
		// an unhealthy node that is already being deleted (held by its finalizer while it drains) is still an unhealthy node
		if i < unhealthyOthers && i == 0 && verifrt.Choice("otherUnhealthy.firstIsDeleting", 0, 1) == 1 {
			other.Finalizers = []string{v1.TerminationFinalizer}
			other.DeletionTimestamp = &metav1.Time{Time: time.Unix(1700000000, 0)}
		}
		kc.Nodes = append(kc.Nodes, other)
	}
	total := others + 1
	unhealthy := unhealthyOthers
	if match[0] || match[1] {
		unhealthy++
	}
	kc.OnDelete = func(kind, name string) {
		now, read := clk.Peek()
		verifrt.Assert(kind == "NodeClaim" && name == "nc-0", "node repair deletes only the NodeClaim of the reconciled node")
		verifrt.Assert(match[0] || match[1], "node repair deletes only nodes with a condition a repair policy names")
		lasted0 := match[0] && read && !now.Before(since[0].Add(tol[0]))
		lasted1 := match[1] && read && !now.Before(since[1].Add(tol[1]))
		verifrt.Assert(lasted0 || lasted1, "node repair deletes only after an unhealthy condition has lasted the toleration of its own policy")
		verifrt.Assert(5*unhealthy <= total+4, "node repair deletes only while at most 20% (rounded up) of the nodes are unhealthy")
		ok, listed := kc.LastOK("list", "Node")
		verifrt.Assert(listed && ok, "node repair does not delete when the pool's health could not be established")
		verifrt.Reach("deleted")
	}
	c := NewController(kc, cp, clk, &stubs.Recorder{})
	_, _ = c.Reconcile(context.Background(), node.DeepCopy())
}
