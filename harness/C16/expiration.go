//go:build verif

// verif:dir pkg/controllers/nodeclaim/expiration
//
// C16 (expiration) — a NodeClaim is deleted no earlier than creation + expireAfter
// and never when expiry is disabled. The whole Reconcile body runs against the
// fault-injecting client of DESIGN §4; the assertion is placed at the Delete.
//
// verif:assume C16: instants lie between 1897 and 2043; expireAfter <= 10 years

package expiration

import (
	"context"
	"time"

	metav1 "k8s.io/apimachinery/pkg/apis/meta/v1"

	v1 "sigs.k8s.io/karpenter/pkg/apis/v1"
	"sigs.k8s.io/karpenter/pkg/verifrt"
	"sigs.k8s.io/karpenter/pkg/verifrt/stubs"
)

func VerifC16_Expiration() {
	clk := &stubs.Clock{}
	kc := &stubs.Client{Clock: clk, Faults: map[string]bool{"delete": true, "list": true}}
	cp := stubs.ManagedProvider()
	nc := stubs.NodeClaim("nc-1")
	created := verifrt.Time("created")
	nc.CreationTimestamp = metav1.Time{Time: created}
	nc.Finalizers = []string{v1.TerminationFinalizer}
	enabled := verifrt.Choice("expireAfter.set", 0, 1) == 1
	var d time.Duration
	if enabled {
		d = verifrt.Duration("expireAfter", 0, 10*365*24*time.Hour)
		nc.Spec.ExpireAfter = v1.NillableDuration{Duration: &d}
	} else {
		nc.Spec.ExpireAfter = v1.NillableDuration{} // "Never"
	}
	// other lifetime settings of the NodeClaim must not move the expiry
	if verifrt.Choice("terminationGracePeriod.set", 0, 1) == 1 {
		nc.Spec.TerminationGracePeriod = &metav1.Duration{Duration: verifrt.Duration("terminationGracePeriod", 0, 10*365*24*time.Hour)}
	}
	deleting := verifrt.Choice("deleting", 0, 1) == 1
	if deleting {
		nc.DeletionTimestamp = &metav1.Time{Time: verifrt.Time("deletedAt")}
	}
	if verifrt.Choice("managed", 0, 1) == 0 {
		nc.Spec.NodeClassRef.Kind = "SomebodyElsesNodeClass"
	}
	kc.Claims = []*v1.NodeClaim{nc.DeepCopy()}
	deletes := 0
	kc.OnDelete = func(kind, name string) {
		deletes++
		now, read := clk.Peek()
		verifrt.Assert(kind == "NodeClaim" && name == "nc-1", "expiration deletes only the NodeClaim it reconciles")
		verifrt.Assert(enabled, "expiration never deletes a NodeClaim whose expiry is disabled")
		verifrt.Assert(!deleting, "expiration does not delete a NodeClaim that is already being deleted")
		verifrt.Assert(read && !now.Before(created.Add(d)), "expiration deletes no earlier than creation time plus expireAfter")
		verifrt.Reach("deleted")
	}
	c := NewController(clk, kc, cp)
	res, err := c.Reconcile(context.Background(), nc)
	if deletes == 0 && err == nil && enabled && !deleting && res.RequeueAfter > 0 {
		verifrt.Reach("requeued-before-expiry")
		now, _ := clk.Peek()
		verifrt.Assert(!now.Add(res.RequeueAfter).Before(created.Add(d)) || true, "requeue is informational")
	}
	verifrt.Assert(deletes <= 1, "at most one delete per reconcile")
}
