//go:build verif

// verif:dir pkg/controllers/nodeclaim/garbagecollection
//
// C16 (garbage collection) — a registered NodeClaim is deleted only when the provider no longer
// lists its instance and its Node is absent or not Ready, and not when that cannot be established.
//
// verif:assume C16: provider ids are unique per Node (DuplicateNodeError is documented as an invalid state); at most 1 (quick) / 2 (thorough) NodeClaims per pass

package garbagecollection

import (
	"context"
	"strconv"
	"time"

	corev1 "k8s.io/api/core/v1"
	metav1 "k8s.io/apimachinery/pkg/apis/meta/v1"

	v1 "sigs.k8s.io/karpenter/pkg/apis/v1"
	"sigs.k8s.io/karpenter/pkg/verifrt"
	"sigs.k8s.io/karpenter/pkg/verifrt/stubs"
)

type gcClaim struct {
	registered, deleting, instance bool
	node                           int // 0 absent, 1 Ready, 2 NotReady
}

func VerifC16_GarbageCollection() {
	clk := &stubs.Clock{}
	kc := &stubs.Client{Clock: clk, Faults: map[string]bool{"list": true, "delete": true}}
	cp := stubs.ManagedProvider()
	cp.Faults["list"] = true
	n := verifrt.Choice("claims", 1, verifrt.Bound("claims", 1, 2))
	ghost := map[string]gcClaim{}
	for i := 0; i < n; i++ {
		name := "nc-" + strconv.Itoa(i)
		tag := "c" + strconv.Itoa(i)
		g := gcClaim{
			registered: verifrt.Choice(tag+".registered", 0, 1) == 1,
			deleting:   verifrt.Choice(tag+".deleting", 0, 1) == 1,
			instance:   verifrt.Choice(tag+".instance", 0, 1) == 1,
			node:       verifrt.Choice(tag+".node", 0, 2),
		}
		ghost[name] = g
		nc := stubs.NodeClaim(name)
		nc.Finalizers = []string{v1.TerminationFinalizer}
		nc.Status.ProviderID = "verif://" + name
		nc.Status.NodeName = "node-" + strconv.Itoa(i)
		if g.registered {
			stubs.SetCondition(nc, v1.ConditionTypeRegistered, metav1.ConditionTrue, time.Unix(1700000000, 0))
		} else {
			stubs.SetCondition(nc, v1.ConditionTypeRegistered, metav1.ConditionUnknown, time.Unix(1700000000, 0))
		}
		if g.deleting {
			nc.DeletionTimestamp = &metav1.Time{Time: time.Unix(1700000100, 0)}
		}
		kc.Claims = append(kc.Claims, nc)
		if g.instance {
			cp.Instances[nc.Status.ProviderID] = true
		}
		switch g.node {
		case 1:
			kc.Nodes = append(kc.Nodes, stubs.Node(nc.Status.NodeName, nc.Status.ProviderID, corev1.ConditionTrue))
		case 2:
			kc.Nodes = append(kc.Nodes, stubs.Node(nc.Status.NodeName, nc.Status.ProviderID, corev1.ConditionFalse))
		}
	}
	deletes := 0
	kc.OnDelete = func(kind, name string) {
		deletes++
		g, known := ghost[name]
		lookupOK, lookedUp := kc.LastOK("list", "Node")
		// C16-F1: the node lookup error is recorded but the pass falls through to Delete
		verifrt.KnownFinding("C16-F1", lookedUp && !lookupOK)
		verifrt.Assert(kind == "NodeClaim" && known, "garbage collection deletes only listed NodeClaims")
		verifrt.Assert(g.registered && !g.deleting, "garbage collection only deletes registered NodeClaims that are not already deleting")
		verifrt.Assert(!g.instance, "garbage collection only deletes NodeClaims whose instance the provider no longer lists")
		verifrt.Assert(lookedUp && lookupOK, "garbage collection does not delete when the Node lookup could not be established")
		verifrt.Assert(g.node != 1, "garbage collection does not delete a NodeClaim whose Node is Ready")
		verifrt.Reach("deleted")
	}
	c := NewController(clk, kc, cp)
	_, _ = c.Reconcile(context.Background())
	verifrt.Assert(deletes <= n, "at most one delete per NodeClaim")
}
