//go:build verif

// verif:dir pkg/controllers/nodeclaim/lifecycle
//
// C16 (liveness) — the liveness check deletes only NodeClaims that failed to launch or register within their timeouts.

package lifecycle

import (
	"context"

	metav1 "k8s.io/apimachinery/pkg/apis/meta/v1"

	v1 "sigs.k8s.io/karpenter/pkg/apis/v1"
	"sigs.k8s.io/karpenter/pkg/state/nodepoolhealth"
	"sigs.k8s.io/karpenter/pkg/verifrt"
	"sigs.k8s.io/karpenter/pkg/verifrt/stubs"
)

func VerifC16_Liveness() {
	clk := &stubs.Clock{}
	kc := &stubs.Client{Clock: clk, Faults: map[string]bool{"get": true, "status-patch": true, "delete": true}}
	nc := stubs.NodeClaim("nc-1")
	nc.Finalizers = []string{v1.TerminationFinalizer}
	pool := &v1.NodePool{}
	pool.Name, pool.UID = "pool-1", "uid-pool-1"
	if verifrt.Choice("pool.exists", 0, 1) == 1 {
		kc.Pools = append(kc.Pools, pool)
	}
	if verifrt.Choice("owned", 0, 1) == 1 {
		nc.OwnerReferences = []metav1.OwnerReference{{Kind: "NodePool", Name: "pool-1", UID: pool.UID}}
	}
	// Launch and Registration run before Liveness in the same lifecycle reconcile and leave both conditions set
	launched := verifrt.Choice("launched", 1, 3) // True, False, Unknown
	registered := verifrt.Choice("registered", 1, 3)
	tL, tR := verifrt.Time("launched.since"), verifrt.Time("registered.since")
	sts := []metav1.ConditionStatus{"", metav1.ConditionTrue, metav1.ConditionFalse, metav1.ConditionUnknown}
	if launched != 0 {
		stubs.SetCondition(nc, v1.ConditionTypeLaunched, sts[launched], tL)
	}
	if registered != 0 {
		stubs.SetCondition(nc, v1.ConditionTypeRegistered, sts[registered], tR)
	}
	kc.Claims = []*v1.NodeClaim{nc.DeepCopy()}
	kc.OnDelete = func(kind, name string) {
		now, read := clk.Peek()
		verifrt.Assert(kind == "NodeClaim" && name == "nc-1", "liveness deletes only the NodeClaim it reconciles")
		verifrt.Assert(registered != 1, "liveness never deletes a registered NodeClaim")
		launchTimedOut := launched != 0 && launched != 1 && read && now.Sub(tL) >= LaunchTimeout
		registrationTimedOut := registered != 0 && read && now.Sub(tR) >= registrationTimeout
		verifrt.Assert(launchTimedOut || registrationTimedOut, "liveness deletes only after the launch (5m) or registration (15m) timeout has passed")
		verifrt.Reach("deleted")
	}
	l := &Liveness{clock: clk, kubeClient: kc, npState: nodepoolhealth.NewState()}
	_, _ = l.Reconcile(context.Background(), nc)
}
