//go:build verif

// verif:dir pkg/scheduling
//
// C12 — Label-requirement algebra agrees with set semantics (DESIGN §7 C12).
//
// Label values are atoms (verifrt.Atom): pairwise distinct strings whose numeric
// interpretation (strconv.Atoi: parses or not, value, canonical or zero-padded)
// is a solver variable. A requirement mentions finitely many strings, and whether
// a string is admitted depends only on which mentioned string it equals and on
// its numeric interpretation, so "for every label value" is decided by the
// mentioned atoms plus one unmentioned witness with a free interpretation
// (DESIGN §3.3 small-model argument).
//
// verif:pure ^\(\*sigs\.k8s\.io/karpenter/pkg/scheduling\.Requirement\)\.(Has|HasIntersection|Len|Operator)$
// verif:pure ^sigs\.k8s\.io/karpenter/pkg/scheduling\.(withinBounds|vRepInv|vPtrEq)$
// verif:pure ^\(sigs\.k8s\.io/karpenter/pkg/scheduling\.vSpec\)\.(admits|admitsAbsent)$
// verif:assume C12: Requirement.Has/HasIntersection/Len/Operator, withinBounds and the harness oracles are summarised as pure callees (explored exhaustively in place, result ite-merged); purity is enforced at run time by write tracking
// verif:assume C12: operands of Gt/Lt/Gte/Lte parse as integers >= 0 (what v1.ValidateRequirement accepts); In and NotIn lists are non-empty
// verif:assume C12: integer-valued label values are those strconv.Atoi accepts (int64), as in Kubernetes' nodeaffinity helper

package scheduling

import (
	"math"
	"strconv"

	corev1 "k8s.io/api/core/v1"
	"k8s.io/apimachinery/pkg/util/sets"

	v1 "sigs.k8s.io/karpenter/pkg/apis/v1"
	"sigs.k8s.io/karpenter/pkg/verifrt"
)

const (
	vIn = iota
	vNotIn
	vExists
	vDNE
	vGt
	vLt
	vGte
	vLte
)

var vOps = []corev1.NodeSelectorOperator{
	corev1.NodeSelectorOpIn, corev1.NodeSelectorOpNotIn, corev1.NodeSelectorOpExists, corev1.NodeSelectorOpDoesNotExist,
	corev1.NodeSelectorOpGt, corev1.NodeSelectorOpLt, v1.NodeSelectorOpGte, v1.NodeSelectorOpLte,
}

const vKey = "example.com/custom"

// vSpec is the ghost description of one node-selector expression.
type vSpec struct {
	op   int
	vals []string // In / NotIn
	n    int      // numeric operand
	raw  string   // the operand as written
}

func vUniverse() []string {
	k := verifrt.Bound("atoms", 2, 3)
	u := make([]string, k)
	for i := range u {
		u[i] = verifrt.Atom(i)
	}
	return u
}

// vWitness is a string no requirement in the harness mentions.
func vWitness() string { return verifrt.Atom(9) }

func vSubset(label string, u []string, min int) []string {
	mask := verifrt.Choice(label, min, (1<<len(u))-1)
	var out []string
	for i := range u {
		if mask&(1<<i) != 0 {
			out = append(out, u[i])
		}
	}
	return out
}

// vGen draws an arbitrary valid expression; operandAtom names the atom used as numeric operand.
func vGen(tag string, u []string, operandAtom int) vSpec {
	s := vSpec{op: verifrt.Choice(tag+".op", vIn, vLte)}
	switch s.op {
	case vIn:
		s.vals = vSubset(tag+".vals", u, 1) // In needs at least one value (ValidateRequirement, Kubernetes API validation)
	case vNotIn:
		s.vals = vSubset(tag+".vals", u, 1)
	case vGt, vLt, vGte, vLte:
		s.raw = verifrt.Atom(operandAtom)
		n, err := strconv.Atoi(s.raw)
		verifrt.Assume(err == nil && n >= 0)
		s.n = n
	}
	return s
}

func (s vSpec) build(key string) *Requirement {
	switch s.op {
	case vIn, vNotIn:
		return NewRequirement(key, vOps[s.op], append([]string{}, s.vals...)...)
	case vExists, vDNE:
		return NewRequirement(key, vOps[s.op])
	}
	return NewRequirement(key, vOps[s.op], s.raw)
}

func vContains(l []string, w string) bool {
	for _, x := range l {
		if x == w {
			return true
		}
	}
	return false
}

// admits: Kubernetes NodeSelectorRequirement semantics for a present label value
// (Gte/Lte are Karpenter's inclusive variants).
func (s vSpec) admits(w string) bool {
	switch s.op {
	case vIn:
		return vContains(s.vals, w)
	case vNotIn:
		return !vContains(s.vals, w)
	case vExists:
		return true
	case vDNE:
		return false
	}
	x, err := strconv.Atoi(w)
	if err != nil {
		return false
	}
	switch s.op {
	case vGt:
		return x > s.n
	case vLt:
		return x < s.n
	case vGte:
		return x >= s.n
	}
	return x <= s.n
}

// admitsAbsent: does a node without the label satisfy the expression?
func (s vSpec) admitsAbsent() bool { return s.op == vNotIn || s.op == vDNE }

func (s vSpec) cofinite() bool { return s.op != vIn && s.op != vDNE }

func vProbes(u []string) []string { return append(append([]string{}, u...), vWitness()) }

// ---- 1. constructor: a requirement admits exactly what Kubernetes would admit ----

func VerifC12_CtorHas() {
	u := vUniverse()
	s := vGen("a", u, 10)
	r := s.build(vKey)
	if s.op >= vGt {
		verifrt.Reach("numeric-operator")
	}
	for _, w := range vProbes(u) {
		verifrt.Assert(r.Has(w) == s.admits(w), "a requirement admits exactly the values Kubernetes admits for its operator")
	}
	verifrt.Assert(vRepInv(r), "constructor output is well-formed")
}

// vRepInv: representation invariant of *Requirement (DESIGN §7 C12-2).
func vRepInv(r *Requirement) bool {
	if (r.gte != nil || r.lte != nil) && !r.complement {
		return false
	}
	if r.gte != nil && r.lte != nil && *r.gte > *r.lte {
		return false
	}
	return r.values != nil
}

// vArb builds an arbitrary well-formed representation directly.
func vArb(tag string, u []string) *Requirement { return vArbMin(tag, u, false) }

func vArbMin(tag string, u []string, withMin bool) *Requirement {
	r := &Requirement{Key: vKey, values: sets.New(vSubset(tag+".vals", u, 0)...)}
	r.complement = verifrt.Choice(tag+".complement", 0, 1) == 1
	if r.complement {
		if verifrt.Choice(tag+".gte", 0, 1) == 1 {
			g := verifrt.Int(tag + ".gteval")
			r.gte = &g
		}
		if verifrt.Choice(tag+".lte", 0, 1) == 1 {
			l := verifrt.Int(tag + ".lteval")
			r.lte = &l
		}
	}
	if withMin && verifrt.Choice(tag+".min", 0, 1) == 1 {
		m := verifrt.IntRange(tag+".minval", 0, 1000)
		r.MinValues = &m
	}
	verifrt.Assume(vRepInv(r))
	return r
}

func vMaxPtr(a, b *int) *int {
	if a == nil {
		return b
	}
	if b == nil || *a >= *b {
		return a
	}
	return b
}

func vPtrEq(a, b *int) bool {
	if a == nil || b == nil {
		return a == nil && b == nil
	}
	return *a == *b
}

// ---- 2. intersection admits exactly what both admit (one step from an arbitrary well-formed state) ----

func VerifC12_Intersection() {
	u := vUniverse()
	a, b := vArb("a", u), vArb("b", u)
	if a.complement && b.complement && (a.gte != nil || a.lte != nil) && len(b.values) > 0 {
		verifrt.Reach("bounds-and-exclusions")
	}
	c := a.Intersection(b)
	d := b.Intersection(a)
	verifrt.Assert(vRepInv(c), "intersection is well-formed")
	for _, w := range vProbes(u) {
		ha, hb := a.Has(w), b.Has(w)
		both := ha && hb
		verifrt.Assert(c.Has(w) == both, "the intersection admits exactly the values both operands admit")
		verifrt.Assert(d.Has(w) == both, "intersection is commutative with respect to the admitted set")
	}
	e := a.Intersection(a)
	for _, w := range vProbes(u) {
		verifrt.Assert(e.Has(w) == a.Has(w), "intersection is idempotent with respect to the admitted set")
	}
}

// minValues of an intersection is the larger of the two floors (nil = no floor), whatever the operands look like
func VerifC12_IntersectionMinValues() {
	u := vUniverse()[:1]
	a, b := vArbMin("a", u, true), vArbMin("b", u, true)
	c := a.Intersection(b)
	if a.MinValues != nil && b.MinValues != nil {
		verifrt.Reach("both-floors")
	}
	verifrt.Assert(vPtrEq(c.MinValues, vMaxPtr(a.MinValues, b.MinValues)), "minValues of an intersection is the larger floor")
}

// three operands: associativity with respect to the admitted set (thorough tier only: Bound = 0 skips it in quick)
func VerifC12_IntersectionAssoc() {
	u := vUniverse()
	if verifrt.Bound("assoc", 0, 1) == 0 {
		// quick tier: two-operand closure above already implies associativity point-wise; only a smoke path here
		u = u[:1]
	} else if len(u) > 2 {
		u = u[:2] // three operands over three atoms do not finish within the thorough budget
	}
	a, b, c := vArb("a", u), vArb("b", u), vArb("c", u)
	l := a.Intersection(b).Intersection(c)
	r := a.Intersection(b.Intersection(c))
	for _, w := range vProbes(u) {
		verifrt.Assert(l.Has(w) == r.Has(w), "intersection is associative with respect to the admitted set")
	}
}

// ---- 3. the quick overlap test agrees with non-emptiness of the intersection ----

func VerifC12_HasIntersection() {
	u := vUniverse()
	a, b := vArb("a", u), vArb("b", u)
	hi := a.HasIntersection(b)
	verifrt.Assert(hi == b.HasIntersection(a), "overlap test is symmetric")
	// (<=) any value admitted by both forces a positive answer; the witness stands for every unmentioned string
	for _, w := range vProbes(u) {
		ha, hb := a.Has(w), b.Has(w)
		verifrt.Assert(!(ha && hb) || hi, "a value admitted by both requirements is reported as overlap")
	}
	// (=>) a positive answer has a witness: a mentioned atom, or an unmentioned zero-padded integer at the lower
	// (else upper) bound — a Skolem witness pinned by assumption.
	sk := verifrt.Atom(8)
	x, err := strconv.Atoi(sk)
	g, l := vMaxPtr(a.gte, b.gte), minIntPtr(a.lte, b.lte)
	switch {
	case g != nil:
		verifrt.Assume(err == nil && x == *g)
	case l != nil:
		verifrt.Assume(err == nil && x == *l)
	}
	ska, skb := a.Has(sk), b.Has(sk)
	found := ska && skb
	for _, w := range u {
		ha, hb := a.Has(w), b.Has(w)
		found = found || (ha && hb)
	}
	verifrt.Assert(!hi || found, "reported overlap is witnessed by a value both requirements admit")
	// and it agrees with the constructed intersection
	c := a.Intersection(b)
	nonEmpty := c.Has(sk)
	for _, w := range u {
		hc := c.Has(w)
		nonEmpty = nonEmpty || hc
	}
	verifrt.Assert(hi == nonEmpty, "overlap test agrees with non-emptiness of the intersection")
}

// ---- 4. Len / Operator as far as the statement needs them ----

func VerifC12_LenOperator() {
	u := vUniverse()
	r := vArb("a", u)
	any := false
	for _, w := range u {
		h := r.Has(w)
		any = any || h
	}
	if !r.complement {
		verifrt.Assert((r.Len() == 0) == !any, "a finite requirement has length zero exactly when it admits nothing")
		verifrt.Assert((r.Operator() == corev1.NodeSelectorOpIn) == any, "a finite requirement reports In exactly when it admits something")
		verifrt.Assert(r.Operator() == corev1.NodeSelectorOpIn || r.Operator() == corev1.NodeSelectorOpDoesNotExist, "finite requirements are In or DoesNotExist")
	} else {
		verifrt.Assert(r.Operator() == corev1.NodeSelectorOpNotIn || r.Operator() == corev1.NodeSelectorOpExists, "co-finite requirements are NotIn or Exists")
		verifrt.Assert(r.Len() > 0 && r.Len() <= math.MaxInt64, "co-finite requirements are never reported empty")
	}
}
