//go:build verif

// verif:dir pkg/scheduling
//
// C12-5 — compatibility of two requirement sets holds exactly when some node
// labelling allowed by the first satisfies the second, under the documented
// treatment of undefined keys (custom keys: denied when undefined; well-known
// keys with AllowUndefinedWellKnownLabels: allowed when undefined).
//
// Both sides are built through the public API (NewRequirement + Requirements.Add),
// one to two expressions per key, so every operator combination on one key that
// a NodePool or pod can write is covered (Gt with NotIn, Exists with NotIn, ...).
//
// verif:pure ^sigs\.k8s\.io/karpenter/pkg/scheduling\.(vValueOK|vBoundsFeasible|vAllAbsent)$

package scheduling

import (
	"math"

	corev1 "k8s.io/api/core/v1"

	"sigs.k8s.io/karpenter/pkg/verifrt"
)

const vWellKnownKey = corev1.LabelTopologyZone

// vConj draws a conjunction of n expressions on one key.
func vConj(tag string, u []string, n int, atomBase int) []vSpec {
	var out []vSpec
	for i := 0; i < n; i++ {
		out = append(out, vGen(tag+string(rune('0'+i)), u, atomBase+i))
	}
	return out
}

func vAllAbsent(specs []vSpec) bool {
	for _, s := range specs {
		if !s.admitsAbsent() {
			return false
		}
	}
	return true
}

// vBoundsFeasible: is there an int64 that satisfies every numeric expression? (1-D intervals: pairwise test suffices)
func vBoundsFeasible(specs []vSpec) bool {
	for _, lo := range specs {
		if lo.op == vGt && lo.n == math.MaxInt64 {
			return false
		}
		if lo.op != vGt && lo.op != vGte {
			continue
		}
		for _, hi := range specs {
			switch {
			case lo.op == vGt && hi.op == vLt:
				if !(lo.n < hi.n-1) {
					return false
				}
			case lo.op == vGt && hi.op == vLte, lo.op == vGte && hi.op == vLt:
				if !(lo.n < hi.n) {
					return false
				}
			case lo.op == vGte && hi.op == vLte:
				if !(lo.n <= hi.n) {
					return false
				}
			}
		}
	}
	return true
}

// vValueOK: does some label value satisfy every expression? A finite (In) expression
// forces the value to be a mentioned atom; otherwise any unmentioned string — or, with
// numeric bounds, any zero-padded integer inside them — works.
func vValueOK(specs []vSpec, u []string) bool {
	for _, w := range u {
		all := true
		for _, s := range specs {
			a := s.admits(w)
			all = all && a
		}
		if all {
			return true
		}
	}
	for _, s := range specs {
		if !s.cofinite() {
			return false
		}
	}
	return vBoundsFeasible(specs)
}

func vBuildInto(r Requirements, key string, specs []vSpec) {
	for _, s := range specs {
		r.Add(s.build(key))
	}
}

// vAbsenceBit: what the implementation derives for "an absent label satisfies this requirement".
func vAbsenceBit(r *Requirement) bool {
	op := r.Operator()
	return op == corev1.NodeSelectorOpNotIn || op == corev1.NodeSelectorOpDoesNotExist
}

func vHasOp(specs []vSpec, op int) bool {
	for _, s := range specs {
		if s.op == op {
			return true
		}
	}
	return false
}

// vKnownAbsenceFindings declares the two known shapes in which the in-memory requirement, which does not record whether
// the label must be present, infers the wrong answer from Operator():
//   C12-F1: co-finite with an exclusion list although an expression on the key needs the label (Exists/Gt/Lt/Gte/Lte) -> "NotIn"
//   C12-F2: admits no value (contradictory In lists, contradictory bounds, Gt MaxInt64) although an expression on the key
//           needs the label -> stored as the empty finite set, reported as "DoesNotExist"
func vKnownAbsenceFindings(r *Requirement, specs []vSpec) (f1, f2 bool) {
	f1 = r.complement && len(r.values) > 0 && !vAllAbsent(specs)
	f2 = !r.complement && len(r.values) == 0 && !vAllAbsent(specs)
	return
}

func VerifC12_Compatible() {
	u := vUniverse()
	if len(u) > 2 {
		u = u[:2] // the thorough tier widens the conjunctions (b.conj), not the universe, in this harness
	}
	// mode 0: every operator combination on the custom key, well-known key unused;
	// mode 1: at most one expression per side on the custom key, every combination on the well-known key
	mode := verifrt.Choice("mode", 0, 1)
	maxA, maxB := 2, verifrt.Bound("b.conj", 1, 2)
	if mode == 1 {
		maxA, maxB = 1, 1
	}
	nA := verifrt.Choice("a.n", 0, maxA)
	nB := verifrt.Choice("b.n", 0, maxB)
	sa := vConj("a", u, nA, 10)
	sb := vConj("b", u, nB, 20)
	A, B := NewRequirements(), NewRequirements()
	vBuildInto(A, vKey, sa)
	vBuildInto(B, vKey, sb)

	// a second, well-known key exercises the undefined-key rule for well-known labels
	var wa, wb []vSpec
	if mode == 1 {
		switch verifrt.Choice("a.wk", 0, 1) {
		case 1:
			wa = []vSpec{{op: vIn, vals: u[:1]}}
		}
		switch verifrt.Choice("b.wk", 0, 4) {
		case 1:
			wb = []vSpec{{op: vIn, vals: u[:1]}}
		case 2:
			wb = []vSpec{{op: vIn, vals: u[1:2]}}
		case 3:
			wb = []vSpec{{op: vNotIn, vals: u[:1]}}
		case 4:
			wb = []vSpec{{op: vDNE}}
		}
	}
	vBuildInto(A, vWellKnownKey, wa)
	vBuildInto(B, vWellKnownKey, wb)
	allowWK := verifrt.Choice("allowUndefinedWellKnown", 0, 1) == 1

	f1, f2 := false, false
	if r, ok := A[vKey]; ok {
		x, y := vKnownAbsenceFindings(r, sa)
		f1, f2 = f1 || x, f2 || y
		verifrt.Assert(x || y || vAbsenceBit(r) == vAllAbsent(sa), "absence is derived correctly from the stored requirement (first set)")
	}
	if r, ok := B[vKey]; ok {
		x, y := vKnownAbsenceFindings(r, sb)
		f1, f2 = f1 || x, f2 || y
		verifrt.Assert(x || y || vAbsenceBit(r) == vAllAbsent(sb), "absence is derived correctly from the stored requirement (second set)")
	}
	verifrt.KnownFinding("C12-F1", f1)
	verifrt.KnownFinding("C12-F2", f2)
	if nA == 2 && nB >= 1 {
		verifrt.Reach("conjunction-vs-expression")
	}
	if mode == 1 && len(wa) == 0 && len(wb) > 0 {
		verifrt.Reach("well-known-key-undefined")
	}

	var err error
	if allowWK {
		err = A.Compatible(B, AllowUndefinedWellKnownLabels)
	} else {
		err = A.Compatible(B)
	}
	got := err == nil

	keyOK := func(sA, sB []vSpec, allowUndefined bool) bool {
		switch {
		case len(sB) == 0:
			return true
		case len(sA) == 0:
			return allowUndefined || vAllAbsent(sB)
		}
		all := append(append([]vSpec{}, sA...), sB...)
		v := vValueOK(all, u)
		ab := vAllAbsent(all)
		return v || ab
	}
	k1 := keyOK(sa, sb, false)
	k2 := keyOK(wa, wb, allowWK)
	want := k1 && k2
	verifrt.Observe("compatible", got)
	verifrt.Assert(got == want, "Compatible holds exactly when some labelling allowed by the first set satisfies the second")

	// Intersects is the same relation without the undefined-key clause
	gotI := A.Intersects(B) == nil
	i1 := len(sa) == 0 || k1
	i2 := len(wa) == 0 || keyOK(wa, wb, true)
	wantI := i1 && i2
	verifrt.Assert(gotI == wantI, "Intersects holds exactly when the shared keys can be satisfied together")
}

// Add is per-key intersection: the stored requirement admits exactly what all added expressions admit.
func VerifC12_AddIsIntersection() {
	u := vUniverse()
	n := verifrt.Choice("n", 1, verifrt.Bound("add.conj", 2, 3))
	specs := vConj("s", u, n, 10)
	R := NewRequirements()
	vBuildInto(R, vKey, specs)
	r := R.Get(vKey)
	verifrt.Assert(vRepInv(r), "the stored requirement is well-formed")
	for _, w := range vProbes(u) {
		all := true
		for _, s := range specs {
			a := s.admits(w)
			all = all && a
		}
		verifrt.Assert(r.Has(w) == all, "a key's stored requirement admits exactly the values every added expression admits")
	}
	if n >= 2 {
		verifrt.Reach("two-expressions")
	}
}
