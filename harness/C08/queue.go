//go:build verif

// verif:dir pkg/controllers/disruption
//
// C08 — no candidate NodeClaim is deleted until every replacement reports Initialized; if a replacement
// disappears or the action times out, that action deletes no candidate and the candidates return to service
// (disruption taint and DisruptionReason condition removed, nodes count as capacity again); a node is never the
// subject of two concurrent actions (DESIGN §7 C08).
//
// The queue holds one replace command (one candidate, one replacement) that is polled up to 3 times by the real
// Queue.Reconcile; the command's age is symbolic, reads of the replacement may lag (NotFound for an existing
// object), every API call may fail, and between polls the replacement may become Initialized or vanish.
//
// verif:assume C08: one candidate and one replacement per command; up to 2 (quick) / 3 (thorough) polls; retry.OnError makes as many attempts as its backoff has steps, without sleeping; the real provisioner (replacement creation) is not part of this check
// verif:assume C08: the clock is frozen inside a poll; the command's creation time and the time between polls are symbolic

package disruption

import (
	"context"
	"time"

	corev1 "k8s.io/api/core/v1"
	metav1 "k8s.io/apimachinery/pkg/apis/meta/v1"

	v1 "sigs.k8s.io/karpenter/pkg/apis/v1"
	pscheduling "sigs.k8s.io/karpenter/pkg/controllers/provisioning/scheduling"
	"sigs.k8s.io/karpenter/pkg/controllers/state"
	"sigs.k8s.io/karpenter/pkg/operator/options"
	"sigs.k8s.io/karpenter/pkg/scheduling"
	"sigs.k8s.io/karpenter/pkg/verifrt"
	"sigs.k8s.io/karpenter/pkg/verifrt/stubs"
)

func VerifC08_QueuePoll() {
	ctx := options.ToContext(context.Background(), &options.Options{})
	start := verifrt.Time("start")
	verifrt.Assume(start.After(time.Unix(1700000000, 0)))
	clk := &stubs.Clock{Frozen: true}
	clk.Set(start)
	kc := &stubs.Client{Clock: clk, Faults: map[string]bool{"get:NodeClaim": true, "delete:NodeClaim": true}, Lag: map[string]bool{"NodeClaim/nc-new": true}, FaultMax: stubs.FaultOther}
	if verifrt.Bound("rollbackFaults", 0, 1) == 1 {
		kc.Faults["patch:Node"], kc.Faults["status-patch:NodeClaim"] = true, true
	}
	cp := stubs.ManagedProvider()
	cluster := state.NewCluster(clk, kc, cp)
	rec := &stubs.Recorder{}

	// the candidate: tainted, carrying the DisruptionReason condition, marked for deletion in cluster state
	const pid = "verif://i-old"
	node := stubs.Node("node-old", pid, corev1.ConditionTrue)
	node.Labels = map[string]string{corev1.LabelInstanceTypeStable: "it-1", v1.NodePoolLabelKey: "pool-1", v1.NodeRegisteredLabelKey: "true", v1.NodeInitializedLabelKey: "true"}
	node.Spec.Taints = []corev1.Taint{v1.DisruptedNoScheduleTaint}
	old := stubs.NodeClaim("nc-old")
	old.Finalizers = []string{v1.TerminationFinalizer}
	old.Status.ProviderID, old.Status.NodeName = pid, node.Name
	stubs.SetCondition(old, v1.ConditionTypeInitialized, metav1.ConditionTrue, start.Add(-time.Hour))
	stubs.SetCondition(old, v1.ConditionTypeDisruptionReason, metav1.ConditionTrue, start)
	kc.Claims = append(kc.Claims, old)
	kc.Nodes = append(kc.Nodes, node)
	cluster.UpdateNodeClaim(old)
	verifrt.Assert(cluster.UpdateNode(ctx, node) == nil, "candidate tracked")
	// the replacement, created but possibly not yet initialized
	repl := stubs.NodeClaim("nc-new")
	repl.Finalizers = []string{v1.TerminationFinalizer}
	replInitialized := verifrt.Choice("replacement.initialized", 0, 1) == 1
	if replInitialized {
		stubs.SetCondition(repl, v1.ConditionTypeInitialized, metav1.ConditionTrue, start)
	}
	kc.Claims = append(kc.Claims, repl)
	cluster.UpdateNodeClaim(repl)
	cluster.MarkForDeletion(pid)

	var sn *state.StateNode
	for n := range cluster.Nodes() {
		if n.ProviderID() == pid {
			sn = n
		}
	}
	pool := &v1.NodePool{}
	pool.Name = "pool-1"
	cand := &Candidate{StateNode: sn, NodePool: pool}
	cmd := &Command{
		Method:            NewDrift(kc, cluster, nil, rec, clk),
		CreationTimestamp: start.Add(-verifrt.Duration("command.age", 0, 2*time.Hour)),
		Candidates:        []*Candidate{cand},
		Replacements:      []*Replacement{{Name: "nc-new", NodeClaim: &pscheduling.NodeClaim{NodeClaimTemplate: pscheduling.NodeClaimTemplate{Requirements: scheduling.NewRequirements()}}}},
	}
	q := NewQueue(kc, rec, cluster, clk, nil)
	q.ProviderIDToCommand[pid] = cmd

	// a second action on the same node is refused
	other := &Command{Method: cmd.Method, Candidates: []*Candidate{cand}}
	verifrt.Assert(q.StartCommand(ctx, other) != nil, "a node is never the subject of two concurrent actions")

	deletes := 0
	timedOutAtDelete := false
	everInitialized := replInitialized // ghost: the API has shown the replacement Initialized at some point
	kc.OnDelete = func(kind, name string) {
		verifrt.Assert(kind == "NodeClaim" && name == "nc-old", "the queue deletes only candidate NodeClaims")
		deletes++
		verifrt.Reach("candidate-deleted")
		verifrt.Assert(everInitialized, "no candidate is deleted until every replacement NodeClaim has been created and has reported Initialized")
	}
	polls := verifrt.Bound("polls", 2, 3)
	for p := 0; p < polls && q.HasAny(pid); p++ {
		now, _ := clk.Peek()
		timedOutAtDelete = now.Sub(cmd.CreationTimestamp) > 10*time.Minute
		_, _ = q.Reconcile(ctx, old.DeepCopy())
		if !q.HasAny(pid) {
			break
		}
		// environment between polls
		switch verifrt.Choice("event", 0, 2) {
		case 1:
			if r := kc.StoredClaim("nc-new"); r != nil {
				stubs.SetCondition(r, v1.ConditionTypeInitialized, metav1.ConditionTrue, now)
				everInitialized = true
			}
		case 2: // the replacement is gone (insufficient capacity, liveness timeout): the informer sees it too
			kc.Claims = kc.Claims[:1]
			cluster.DeleteNodeClaim("nc-new")
			verifrt.Reach("replacement-vanished")
		}
		clk.Set(now.Add(verifrt.Duration("between.polls", 0, time.Hour)))
	}
	if q.HasAny(pid) {
		return // still waiting
	}
	// the action is over
	if cmd.Succeeded {
		verifrt.Reach("succeeded")
		verifrt.Assert(deletes >= 1, "an action succeeds only by deleting its candidates")
		return
	}
	verifrt.Reach("failed")
	// C08-F1: the deferred time-out wrap turns a poll that already deleted the candidates into a failed action
	verifrt.KnownFinding("C08-F1", deletes > 0 && timedOutAtDelete)
	verifrt.Assert(deletes == 0, "an action that fails deletes no candidate")
	verifrt.Assert(!sn.MarkedForDeletion(), "after a failed action the nodes count as schedulable capacity again")
	getOK, _ := kc.LastOK("get", "Node")
	if ok, tried := kc.LastOK("patch", "Node"); getOK && (!tried || ok) {
		tainted := false
		for _, t := range kc.StoredNode("node-old").Spec.Taints {
			tainted = tainted || t.Key == v1.DisruptedTaintKey
		}
		verifrt.Assert(!tainted, "after a failed action the disruption taint is removed")
	}
	getOK, _ = kc.LastOK("get", "NodeClaim")
	if ok, tried := kc.LastOK("status-patch", "NodeClaim"); getOK && (!tried || ok) {
		if c := kc.StoredClaim("nc-old"); c != nil {
			verifrt.Assert(c.StatusConditions().Get(v1.ConditionTypeDisruptionReason) == nil, "after a failed action the DisruptionReason condition is removed")
		}
	}
}
