//go:build verif

// verif:dir pkg/controllers/disruption
//
// C08 (start of an action) — Queue.StartCommand for a replace command, through the disruption controller's own round
// (Drift on a node with a reschedulable pod: SimulateScheduling, StartCommand with the real provisioner creating the
// replacement NodeClaim): when creating the replacement fails the action has not started — the candidate is not held by
// the queue, is not marked for deletion, no NodeClaim is deleted, and the controller's next reconcile takes the taint
// and the DisruptionReason condition off again so the node returns to service and can be disrupted later. When the
// start succeeds the replacement exists in the API before the candidate is marked, and the candidate is held by the queue.
//
// verif:assume C08: one drifted node with one reschedulable pod of symbolic cpu, one instance type, NodeClaim Create may fail with a generic error; the recovery reconcile runs with no disruption methods so that only its clean-up is exercised
// verif:nondeterministic the scheduler breaks ties between equally good domains, NodeClaims and instance types by Go map iteration order; a native run may take another admissible behaviour than the symbolic path
// verif:pure ^sigs\.k8s\.io/karpenter/pkg/utils/resources\.(Fits|Cmp)$
// verif:pure ^\(\*sigs\.k8s\.io/karpenter/pkg/scheduling\.Requirement\)\.(Has|Len|Operator)$

package disruption

import (
	"context"
	"time"

	"github.com/awslabs/operatorpkg/status"
	corev1 "k8s.io/api/core/v1"
	"k8s.io/apimachinery/pkg/api/resource"
	metav1 "k8s.io/apimachinery/pkg/apis/meta/v1"

	v1 "sigs.k8s.io/karpenter/pkg/apis/v1"
	"sigs.k8s.io/karpenter/pkg/cloudprovider"
	"sigs.k8s.io/karpenter/pkg/controllers/provisioning"
	"sigs.k8s.io/karpenter/pkg/controllers/state"
	opopts "sigs.k8s.io/karpenter/pkg/operator/options"
	"sigs.k8s.io/karpenter/pkg/scheduling"
	"sigs.k8s.io/karpenter/pkg/verifrt"
	"sigs.k8s.io/karpenter/pkg/verifrt/stubs"
)

func VerifC08_FailedStartRollsBack() {
	ctx := opopts.ToContext(context.Background(), &opopts.Options{IgnoreDRARequests: true, MinValuesPolicy: opopts.MinValuesPolicyStrict})
	now := time.Unix(1700000000, 0)
	clk := &stubs.Clock{Frozen: true}
	clk.Set(now)
	kc := &stubs.Client{Clock: clk, Faults: map[string]bool{"create:NodeClaim": true}, FaultMax: stubs.FaultOther}
	cp := stubs.ManagedProvider()
	cluster := state.NewCluster(clk, kc, cp)
	rec := &stubs.Recorder{}
	offer := func() *cloudprovider.Offering {
		return &cloudprovider.Offering{Available: true, Price: 1, Requirements: scheduling.NewRequirements(
			scheduling.NewRequirement(corev1.LabelTopologyZone, corev1.NodeSelectorOpIn, "zone-1"),
			scheduling.NewRequirement(v1.CapacityTypeLabelKey, corev1.NodeSelectorOpIn, v1.CapacityTypeOnDemand),
		)}
	}
	capacity := corev1.ResourceList{corev1.ResourceCPU: resource.MustParse("8"), corev1.ResourceMemory: resource.MustParse("8Gi"), corev1.ResourcePods: resource.MustParse("110")}
	it := &cloudprovider.InstanceType{Name: "it-1", Offerings: cloudprovider.Offerings{offer()}, Capacity: capacity, Overhead: &cloudprovider.InstanceTypeOverhead{},
		Requirements: scheduling.NewRequirements(
			scheduling.NewRequirement(corev1.LabelInstanceTypeStable, corev1.NodeSelectorOpIn, "it-1"),
			scheduling.NewRequirement(corev1.LabelTopologyZone, corev1.NodeSelectorOpIn, "zone-1"),
			scheduling.NewRequirement(v1.CapacityTypeLabelKey, corev1.NodeSelectorOpIn, v1.CapacityTypeOnDemand),
			scheduling.NewRequirement(corev1.LabelArchStable, corev1.NodeSelectorOpIn, "amd64"),
			scheduling.NewRequirement(corev1.LabelOSStable, corev1.NodeSelectorOpIn, "linux"),
		)}
	cp.InstanceTypes = []*cloudprovider.InstanceType{it}
	pool := &v1.NodePool{}
	pool.Name, pool.UID = "pool-1", "uid-pool-1"
	pool.Spec.Template.Spec.NodeClassRef = &v1.NodeClassReference{Group: stubs.NodeClassGroup, Kind: stubs.NodeClassKind, Name: "default"}
	pool.Spec.Disruption.Budgets = []v1.Budget{{Nodes: "100%"}}
	pool.StatusConditions().SetTrue(status.ConditionReady)
	kc.Pools = append(kc.Pools, pool)

	const pid = "verif://i-1"
	node := stubs.Node("node-1", pid, corev1.ConditionTrue)
	node.Labels = map[string]string{
		corev1.LabelInstanceTypeStable: "it-1", v1.CapacityTypeLabelKey: v1.CapacityTypeOnDemand, corev1.LabelTopologyZone: "zone-1",
		v1.NodePoolLabelKey: "pool-1", v1.NodeRegisteredLabelKey: "true", v1.NodeInitializedLabelKey: "true", corev1.LabelHostname: "node-1",
		corev1.LabelArchStable: "amd64", corev1.LabelOSStable: "linux",
	}
	node.Status.Capacity, node.Status.Allocatable = capacity, capacity
	nc := stubs.NodeClaim("claim-1")
	for k, v := range node.Labels {
		nc.Labels[k] = v
	}
	nc.Finalizers = []string{v1.TerminationFinalizer}
	nc.Status.ProviderID, nc.Status.NodeName = pid, "node-1"
	nc.Status.Capacity, nc.Status.Allocatable = capacity, capacity
	nc.CreationTimestamp = metav1.Time{Time: now.Add(-2 * time.Hour)}
	stubs.SetCondition(nc, v1.ConditionTypeInitialized, metav1.ConditionTrue, now.Add(-time.Hour))
	stubs.SetCondition(nc, v1.ConditionTypeDrifted, metav1.ConditionTrue, now.Add(-time.Minute))
	kc.Claims = append(kc.Claims, nc)
	kc.Nodes = append(kc.Nodes, node)
	cluster.UpdateNodeClaim(nc)
	verifrt.Assert(cluster.UpdateNode(ctx, node) == nil, "the node is accepted by cluster state")
	p := &corev1.Pod{}
	p.Name, p.Namespace, p.UID = "pod-1", "default", "uid-pod-1"
	p.Spec.NodeName = "node-1"
	p.Status.Phase = corev1.PodRunning
	p.Status.Conditions = []corev1.PodCondition{{Type: corev1.PodScheduled, Status: corev1.ConditionTrue}}
	p.OwnerReferences = []metav1.OwnerReference{{APIVersion: "apps/v1", Kind: "ReplicaSet", Name: "rs"}}
	p.Spec.Containers = []corev1.Container{{Name: "main", Resources: corev1.ResourceRequirements{Requests: corev1.ResourceList{corev1.ResourceCPU: verifrt.MilliQuantity("pod.cpu", 1, 8000)}}}}
	kc.Pods = append(kc.Pods, p)
	verifrt.Assert(cluster.UpdatePod(ctx, p) == nil, "the pod is accepted by cluster state")

	prov := provisioning.NewProvisioner(kc, rec, cp, cluster, clk, nil, nil)
	queue := NewQueue(kc, rec, cluster, clk, prov)
	drift := NewDrift(kc, cluster, prov, rec, clk)
	ctrl := NewController(clk, kc, prov, cp, rec, cluster, queue, nil, WithMethods())
	claimsBefore := len(kc.Claims)
	started, err := ctrl.disrupt(ctx, drift)

	tainted := func() bool {
		for _, t := range kc.StoredNode("node-1").Spec.Taints {
			if t.Key == v1.DisruptedTaintKey {
				return true
			}
		}
		return false
	}
	conditioned := func() bool {
		c := kc.StoredClaim("claim-1").StatusConditions().Get(v1.ConditionTypeDisruptionReason)
		return c != nil && c.IsTrue()
	}
	marked := func() bool {
		for sn := range cluster.Nodes() {
			if sn.ProviderID() == pid {
				return sn.MarkedForDeletion()
			}
		}
		return false
	}
	if err == nil && started {
		verifrt.Reach("started")
		verifrt.Assert(len(kc.Claims) == claimsBefore+1, "the replacement NodeClaim exists in the API once the action has started")
		verifrt.Assert(queue.HasAny(pid) && marked() && tainted(), "a started action holds its candidate: queued, marked for deletion and tainted")
		verifrt.Assert(kc.Calls("delete", "NodeClaim") == 0, "starting an action deletes nothing")
		return
	}
	if err == nil {
		return // nothing to do (the pod did not fit a replacement)
	}
	verifrt.Reach("start-failed")
	verifrt.Assert(len(kc.Claims) == claimsBefore, "no replacement was created")
	verifrt.Assert(kc.Calls("delete", "NodeClaim") == 0 && !marked(), "an action that fails to start deletes nothing and marks nothing for deletion")
	// the controller's next reconcile returns the node to service
	_, rerr := ctrl.Reconcile(ctx)
	verifrt.Assert(rerr == nil, "the recovery reconcile completes")
	verifrt.Assert(!queue.HasAny(pid), "a node whose action failed to start is not held by the queue")
	verifrt.Assert(!tainted() && !conditioned() && !marked(), "a node whose action failed to start loses the disruption taint and condition and returns to service")
	// ... and can be the subject of a later action
	kc.Faults = map[string]bool{}
	again, err2 := ctrl.disrupt(ctx, drift)
	verifrt.Assert(err2 == nil && again, "a node whose action failed to start can be disrupted by a later action")
}
