//go:build verif

// verif:dir pkg/controllers/disruption
//
// C06 (emptiness) — nodes are deleted as empty only if no reschedulable pod on them has a positive eviction cost.
// One node built through the real cluster state with up to two pods whose pod-deletion-cost and priority are
// symbolic integers; the candidate is built by the real NewCandidate and offered to Emptiness.ShouldDisrupt.
//
// verif:assume C06: up to 2 pods; pod-deletion-cost in [-2147483647, 2147483647] and priority in [-2147483648, 1000000000] as integers (the annotation is an integer string); eviction cost = clamp(1 + cost/2^27 + priority/2^25, -10, 10) as documented

package disruption

import (
	"context"
	"strconv"
	"time"

	corev1 "k8s.io/api/core/v1"
	metav1 "k8s.io/apimachinery/pkg/apis/meta/v1"
	"k8s.io/apimachinery/pkg/api/resource"
	"k8s.io/apimachinery/pkg/types"

	v1 "sigs.k8s.io/karpenter/pkg/apis/v1"
	"sigs.k8s.io/karpenter/pkg/cloudprovider"
	"sigs.k8s.io/karpenter/pkg/controllers/state"
	"sigs.k8s.io/karpenter/pkg/operator/options"
	"sigs.k8s.io/karpenter/pkg/utils/pdb"
	"sigs.k8s.io/karpenter/pkg/verifrt"
	"sigs.k8s.io/karpenter/pkg/verifrt/stubs"
)

func VerifC06_EmptyMeansNoPositiveCost() {
	ctx := options.ToContext(context.Background(), &options.Options{})
	now := time.Unix(1700000000, 0)
	clk := &stubs.Clock{Frozen: true}
	clk.Set(now)
	kc := &stubs.Client{Clock: clk}
	cp := stubs.ManagedProvider()
	cluster := state.NewCluster(clk, kc, cp)
	rec := &stubs.Recorder{}
	pool := &v1.NodePool{}
	pool.Name = "pool-1"
	after := 30 * time.Second
	pool.Spec.Disruption.ConsolidateAfter = v1.NillableDuration{Duration: &after}
	pool.Spec.Disruption.ConsolidationPolicy = v1.ConsolidationPolicyWhenEmptyOrUnderutilized
	it := &cloudprovider.InstanceType{Name: "it-1", Capacity: corev1.ResourceList{corev1.ResourceCPU: resource.MustParse("4")}}
	const pid = "verif://i-1"
	node := stubs.Node("node-1", pid, corev1.ConditionTrue)
	node.Labels = map[string]string{corev1.LabelInstanceTypeStable: "it-1", v1.CapacityTypeLabelKey: v1.CapacityTypeOnDemand, corev1.LabelTopologyZone: "zone-1",
		v1.NodePoolLabelKey: "pool-1", v1.NodeRegisteredLabelKey: "true", v1.NodeInitializedLabelKey: "true"}
	nc := stubs.NodeClaim("nc-1")
	nc.Status.ProviderID, nc.Status.NodeName = pid, node.Name
	nc.CreationTimestamp = metav1.Time{Time: now.Add(-time.Hour)}
	stubs.SetCondition(nc, v1.ConditionTypeInitialized, metav1.ConditionTrue, now.Add(-time.Hour))
	stubs.SetCondition(nc, v1.ConditionTypeConsolidatable, metav1.ConditionTrue, now.Add(-time.Minute))
	kc.Claims, kc.Nodes = append(kc.Claims, nc), append(kc.Nodes, node)
	cluster.UpdateNodeClaim(nc)

	n := verifrt.Choice("pods", 0, 2)
	anyPositive := false
	for i := 0; i < n; i++ {
		name := "pod-" + strconv.Itoa(i)
		p := &corev1.Pod{}
		p.Name, p.Namespace = name, "default"
		p.UID = types.UID("uid-" + name)
		p.Spec.NodeName = node.Name
		p.Status.Phase = corev1.PodRunning
		p.OwnerReferences = []metav1.OwnerReference{{APIVersion: "apps/v1", Kind: "ReplicaSet", Name: "rs"}}
		cost, prio := 0, 0
		if verifrt.Choice(name+".deletionCost.set", 0, 1) == 1 {
			cost = verifrt.IntRange(name+".deletionCost", -2147483647, 2147483647)
			p.Annotations = map[string]string{corev1.PodDeletionCost: strconv.Itoa(cost)}
		}
		if verifrt.Choice(name+".priority.set", 0, 1) == 1 {
			prio = verifrt.IntRange(name+".priority", -2147483648, 1000000000)
			pr := int32(prio)
			p.Spec.Priority = &pr
		}
		// eviction cost > 0  <=>  1 + cost/2^27 + prio/2^25 > 0  <=>  2^27 + cost + 4*prio > 0 (exact in integers)
		anyPositive = anyPositive || (1<<27)+cost+4*prio > 0
		kc.Pods = append(kc.Pods, p)
	}
	verifrt.Assert(cluster.UpdateNode(ctx, node) == nil, "node tracked")
	queue := NewQueue(kc, rec, cluster, clk, nil)
	limits, err := pdb.NewLimits(ctx, kc)
	verifrt.Assert(err == nil, "limits")
	c := MakeConsolidation(clk, cluster, kc, nil, cp, rec, queue)
	e := NewEmptiness(c)
	var sn *state.StateNode
	for x := range cluster.Nodes() {
		sn = x
	}
	cand, cerr := NewCandidate(ctx, kc, rec, clk, sn, limits, map[string]*v1.NodePool{"pool-1": pool},
		map[string]map[string]*cloudprovider.InstanceType{"pool-1": {"it-1": it}}, queue, e.Class())
	verifrt.Assert(cerr == nil, "candidate built")
	empty := e.ShouldDisrupt(ctx, cand)
	verifrt.Observe("treatedAsEmpty", empty)
	verifrt.Assert(empty == !anyPositive, "a node is treated as empty exactly when no reschedulable pod on it has a positive eviction cost")
	if n == 2 {
		verifrt.Reach("two-pods")
	}
}
