//go:build verif

// verif:dir pkg/controllers/disruption
//
// C06 (validation) — a consolidation command is computed, the cluster changes, and the command is validated
// (ConsolidationValidator.Validate: candidate re-check, re-simulation, subset check, second candidate re-check). If the
// validator lets the command through, it is still sound in the *changed* cluster: the candidate is still disruptable
// (not nominated, no do-not-disrupt pod), and everything that needs a home — the pods now on the candidate and the
// pods now pending — fits into the free room of the node that stays plus, when the command has a replacement, the
// smallest instance type the replacement may be launched as.
//
// verif:assume C06: one on-demand candidate with one pod of symbolic cpu, one other initialized node of symbolic allocatable, 3 instance types with symbolic on-demand prices (spot unavailable); between decision and validation one of: nothing, a new pending pod (symbolic cpu), a new pod bound to the candidate (symbolic cpu, optionally do-not-disrupt), the candidate nominated for a pod; validation period 0 (the wait itself is a timer)
// verif:pure ^sigs\.k8s\.io/karpenter/pkg/utils/resources\.(Fits|Cmp)$
// verif:pure ^\(\*sigs\.k8s\.io/karpenter/pkg/scheduling\.Requirement\)\.(Has|Len|Operator)$
// verif:nondeterministic the scheduler breaks ties between equally good domains, NodeClaims and instance types by Go map iteration order; a native run may take another admissible behaviour than the symbolic path
// verif:assume sample comparison against the real build is restricted to the verdict for these harnesses: the real code breaks ties by randomised map iteration order, the engine iterates in insertion order; violations are always confirmed natively

package disruption

import (
	"context"
	"time"

	"github.com/awslabs/operatorpkg/status"
	corev1 "k8s.io/api/core/v1"
	"k8s.io/apimachinery/pkg/api/resource"
	metav1 "k8s.io/apimachinery/pkg/apis/meta/v1"
	k8stypes "k8s.io/apimachinery/pkg/types"

	v1 "sigs.k8s.io/karpenter/pkg/apis/v1"
	"sigs.k8s.io/karpenter/pkg/cloudprovider"
	"sigs.k8s.io/karpenter/pkg/controllers/provisioning"
	"sigs.k8s.io/karpenter/pkg/controllers/state"
	opopts "sigs.k8s.io/karpenter/pkg/operator/options"
	"sigs.k8s.io/karpenter/pkg/utils/pdb"
	"sigs.k8s.io/karpenter/pkg/verifrt"
	"sigs.k8s.io/karpenter/pkg/verifrt/stubs"
)

func VerifC06_ValidationAfterChange() {
	ctx := opopts.ToContext(context.Background(), &opopts.Options{IgnoreDRARequests: true, MinValuesPolicy: opopts.MinValuesPolicyStrict})
	now := time.Unix(1700000000, 0)
	clk := &stubs.Clock{Frozen: true}
	clk.Set(now)
	kc := &stubs.Client{Clock: clk}
	cp := stubs.ManagedProvider()
	cluster := state.NewCluster(clk, kc, cp)
	rec := &stubs.Recorder{}
	types := []*kType{kMakeType("it-s", 2, false), kMakeType("it-m", 4, false), kMakeType("it-l", 8, false)}
	itMap := map[string]*cloudprovider.InstanceType{}
	for _, t := range types {
		// on-demand only: the spot offering is never available in this harness
		t.offers[1].available = false
		t.it.Offerings[1].Available = false
		cp.InstanceTypes = append(cp.InstanceTypes, t.it)
		itMap[t.it.Name] = t.it
	}
	pool := &v1.NodePool{}
	pool.Name, pool.UID = "pool-1", "uid-pool-1"
	pool.Spec.Template.Spec.NodeClassRef = &v1.NodeClassReference{Group: stubs.NodeClassGroup, Kind: stubs.NodeClassKind, Name: "default"}
	d := 30 * time.Second
	pool.Spec.Disruption.ConsolidateAfter = v1.NillableDuration{Duration: &d}
	pool.Spec.Disruption.ConsolidationPolicy = v1.ConsolidationPolicyWhenEmptyOrUnderutilized
	pool.Spec.Disruption.Budgets = []v1.Budget{{Nodes: "100%"}}
	pool.StatusConditions().SetTrue(status.ConditionReady)
	kc.Pools = append(kc.Pools, pool)

	alloc := corev1.ResourceList{corev1.ResourceCPU: resource.MustParse("8"), corev1.ResourceMemory: resource.MustParse("8Gi"), corev1.ResourcePods: resource.MustParse("110")}
	otherCPU := verifrt.MilliQuantity("other.cpu", 0, 8000)
	otherAlloc := corev1.ResourceList{corev1.ResourceCPU: otherCPU, corev1.ResourceMemory: resource.MustParse("8Gi"), corev1.ResourcePods: resource.MustParse("110")}
	node1, nc1 := kNode("node-1", "verif://i-1", "it-l", v1.CapacityTypeOnDemand, alloc)
	node2, nc2 := kNode("node-2", "verif://i-2", "it-l", v1.CapacityTypeOnDemand, otherAlloc)
	for _, nc := range []*v1.NodeClaim{nc1, nc2} {
		stubs.SetCondition(nc, v1.ConditionTypeInitialized, metav1.ConditionTrue, now.Add(-time.Hour))
		stubs.SetCondition(nc, v1.ConditionTypeConsolidatable, metav1.ConditionTrue, now.Add(-time.Minute))
		kc.Claims = append(kc.Claims, nc)
		cluster.UpdateNodeClaim(nc)
	}
	kc.Nodes = append(kc.Nodes, node1, node2)
	verifrt.Assert(cluster.UpdateNode(ctx, node1) == nil && cluster.UpdateNode(ctx, node2) == nil, "nodes are accepted by cluster state")
	mk := func(name, nodeName string, cpu resource.Quantity) *corev1.Pod {
		p := &corev1.Pod{}
		p.Name, p.Namespace = name, "default"
		p.UID = k8stypes.UID("uid-" + name)
		p.OwnerReferences = []metav1.OwnerReference{{APIVersion: "apps/v1", Kind: "ReplicaSet", Name: "rs"}}
		p.Spec.Containers = []corev1.Container{{Name: "main", Resources: corev1.ResourceRequirements{Requests: corev1.ResourceList{corev1.ResourceCPU: cpu}}}}
		if nodeName == "" {
			p.Status.Phase = corev1.PodPending
			p.Status.Conditions = []corev1.PodCondition{{Type: corev1.PodScheduled, Status: corev1.ConditionFalse, Reason: corev1.PodReasonUnschedulable}}
		} else {
			p.Spec.NodeName = nodeName
			p.Status.Phase = corev1.PodRunning
			p.Status.Conditions = []corev1.PodCondition{{Type: corev1.PodScheduled, Status: corev1.ConditionTrue}}
		}
		kc.Pods = append(kc.Pods, p)
		return p
	}
	cpu1 := verifrt.MilliQuantity("pod-1.cpu", 1, 8000)
	p1 := mk("pod-1", "node-1", cpu1)
	verifrt.Assert(cluster.UpdatePod(ctx, p1) == nil, "the pod is accepted by cluster state")

	prov := provisioning.NewProvisioner(kc, rec, cp, cluster, clk, nil, nil)
	queue := NewQueue(kc, rec, cluster, clk, prov)
	c := MakeConsolidation(clk, cluster, kc, prov, cp, rec, queue)
	limits, err := pdb.NewLimits(ctx, kc)
	verifrt.Assert(err == nil, "PDB limits are built")
	var sn *state.StateNode
	for n := range cluster.Nodes() {
		if n.Name() == "node-1" {
			sn = n
		}
	}
	cand, cerr := NewCandidate(ctx, kc, rec, clk, sn, limits, map[string]*v1.NodePool{"pool-1": pool}, map[string]map[string]*cloudprovider.InstanceType{"pool-1": itMap}, queue, GracefulDisruptionClass)
	if cerr != nil {
		return
	}
	cmd, err := c.computeConsolidation(ctx, cand)
	if err != nil || cmd.Decision() == NoOpDecision {
		return
	}
	verifrt.Reach("command")

	// ---- the cluster changes before the command is validated ----
	demand := cpu1.DeepCopy()
	protected, nominated := false, false
	switch verifrt.Choice("change", 0, 3) {
	case 1:
		q := verifrt.MilliQuantity("new-pending.cpu", 1, 8000)
		p := mk("new-pending", "", q)
		verifrt.Assert(cluster.UpdatePod(ctx, p) == nil, "the pod is accepted by cluster state")
		demand.Add(q)
	case 2:
		q := verifrt.MilliQuantity("new-bound.cpu", 1, 8000)
		p := mk("new-bound", "node-1", q)
		if verifrt.Choice("new-bound.doNotDisrupt", 0, 1) == 1 {
			p.Annotations = map[string]string{v1.DoNotDisruptAnnotationKey: "true"}
			protected = true
		}
		verifrt.Assert(cluster.UpdatePod(ctx, p) == nil, "the pod is accepted by cluster state")
		demand.Add(q)
	case 3:
		cluster.NominateNodeForPod(ctx, "verif://i-1")
		nominated = true
	}

	_, verr := NewSingleConsolidationValidator(c).Validate(ctx, cmd, 0)
	if verr != nil {
		verifrt.Reach("rejected")
		return
	}
	verifrt.Reach("validated")
	verifrt.Assert(!protected, "a command is not validated once a do-not-disrupt pod sits on its candidate")
	verifrt.Assert(!nominated, "a command is not validated once its candidate was nominated for a pod")
	room := otherCPU.DeepCopy()
	if len(cmd.Replacements) == 1 {
		verifrt.Reach("validated-replace")
		min := int64(-1)
		for _, it := range cmd.Replacements[0].InstanceTypeOptions {
			for _, t := range types {
				if t.it == it && (min < 0 || t.cpu < min) {
					min = t.cpu
				}
			}
		}
		verifrt.Assert(min > 0, "a validated replacement has a launch option")
		room.Add(*resource.NewQuantity(min, resource.DecimalSI))
	}
	verifrt.Assert(demand.Cmp(room) <= 0, "a validated command still leaves room for every pod that needs a home in the changed cluster, on every instance type the replacement may be launched as")
}
