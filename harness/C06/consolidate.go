//go:build verif

// verif:dir pkg/controllers/disruption
//
// C06 (consolidation decision) — computeConsolidation through the real SimulateScheduling (Provisioner.NewScheduler,
// Scheduler.Solve) on a real cluster state: whenever a command comes out, every reschedulable pod of the removed
// node has a home on the remaining initialized node or on the single replacement, and every instance type the
// replacement may be launched as has only launch prices strictly below the price of the node it replaces; spot to
// spot needs the feature gate and enough cheaper alternatives; an on-demand node's replacement cannot fall back to
// an on-demand launch that is not cheaper (DESIGN §7 C06).
//
// verif:assume C06: one or two candidate nodes (each on-demand or spot, priced from the catalogue) with one reschedulable pod of symbolic cpu request each; with one candidate, another initialized node with symbolic allocatable cpu stays, one NodePool (on-demand and spot allowed, or on-demand only), 3 instance types x {on-demand, spot} offerings with symbolic availability and symbolic prices (multiples of 2^-10 in (0, 1024], exact in float64); no PDBs, DaemonSets, volumes, DRA, topology constraints
// verif:pure ^sigs\.k8s\.io/karpenter/pkg/utils/resources\.(Fits|Cmp)$
// verif:pure ^\(\*sigs\.k8s\.io/karpenter/pkg/scheduling\.Requirement\)\.(Has|Len|Operator)$
// verif:nondeterministic the scheduler breaks ties between equally good domains, NodeClaims and instance types by Go map iteration order; a native run may take another admissible behaviour than the symbolic path
// verif:assume sample comparison against the real build is restricted to the verdict for these harnesses: the real code breaks ties by randomised map iteration order, the engine iterates in insertion order; violations are always confirmed natively

package disruption

import (
	"context"
	"time"

	"github.com/awslabs/operatorpkg/status"
	corev1 "k8s.io/api/core/v1"
	"k8s.io/apimachinery/pkg/api/resource"
	metav1 "k8s.io/apimachinery/pkg/apis/meta/v1"
	k8stypes "k8s.io/apimachinery/pkg/types"

	v1 "sigs.k8s.io/karpenter/pkg/apis/v1"
	"sigs.k8s.io/karpenter/pkg/cloudprovider"
	"sigs.k8s.io/karpenter/pkg/controllers/provisioning"
	"sigs.k8s.io/karpenter/pkg/controllers/state"
	opopts "sigs.k8s.io/karpenter/pkg/operator/options"
	"sigs.k8s.io/karpenter/pkg/scheduling"
	"sigs.k8s.io/karpenter/pkg/utils/pdb"
	"sigs.k8s.io/karpenter/pkg/verifrt"
	"sigs.k8s.io/karpenter/pkg/verifrt/stubs"
)

type kOffer struct {
	ct        string
	price     float64
	available bool
}

type kType struct {
	it     *cloudprovider.InstanceType
	offers []kOffer
	cpu    int64
}

func kMakeType(name string, cpu int64, symbolicAvailability bool) *kType {
	t := &kType{cpu: cpu}
	var ofs cloudprovider.Offerings
	for _, ct := range []string{v1.CapacityTypeOnDemand, v1.CapacityTypeSpot} {
		// prices are multiples of 2^-10 in (0, 1024]: exact in float64, also when two of them are added
		o := kOffer{ct: ct, price: float64(verifrt.IntRange(name+"."+ct+".price", 1, 1<<20)) / 1024, available: true}
		if symbolicAvailability {
			o.available = verifrt.Bool(name + "." + ct + ".available")
		}
		t.offers = append(t.offers, o)
		ofs = append(ofs, &cloudprovider.Offering{Available: o.available, Price: o.price, Requirements: scheduling.NewRequirements(
			scheduling.NewRequirement(corev1.LabelTopologyZone, corev1.NodeSelectorOpIn, "zone-1"),
			scheduling.NewRequirement(v1.CapacityTypeLabelKey, corev1.NodeSelectorOpIn, ct),
		)})
	}
	t.it = &cloudprovider.InstanceType{
		Name: name,
		Requirements: scheduling.NewRequirements(
			scheduling.NewRequirement(corev1.LabelInstanceTypeStable, corev1.NodeSelectorOpIn, name),
			scheduling.NewRequirement(corev1.LabelTopologyZone, corev1.NodeSelectorOpIn, "zone-1"),
			scheduling.NewRequirement(v1.CapacityTypeLabelKey, corev1.NodeSelectorOpIn, v1.CapacityTypeOnDemand, v1.CapacityTypeSpot),
			scheduling.NewRequirement(corev1.LabelArchStable, corev1.NodeSelectorOpIn, "amd64"),
			scheduling.NewRequirement(corev1.LabelOSStable, corev1.NodeSelectorOpIn, "linux"),
		),
		Offerings: ofs,
		Capacity:  corev1.ResourceList{corev1.ResourceCPU: *resource.NewQuantity(cpu, resource.DecimalSI), corev1.ResourceMemory: resource.MustParse("8Gi"), corev1.ResourcePods: resource.MustParse("110")},
		Overhead:  &cloudprovider.InstanceTypeOverhead{},
	}
	return t
}

func kNode(name, pid, itName, ct string, alloc corev1.ResourceList) (*corev1.Node, *v1.NodeClaim) {
	node := stubs.Node(name, pid, corev1.ConditionTrue)
	node.Labels = map[string]string{
		corev1.LabelInstanceTypeStable: itName, v1.CapacityTypeLabelKey: ct, corev1.LabelTopologyZone: "zone-1",
		v1.NodePoolLabelKey: "pool-1", v1.NodeRegisteredLabelKey: "true", v1.NodeInitializedLabelKey: "true",
		corev1.LabelHostname: name, corev1.LabelArchStable: "amd64", corev1.LabelOSStable: "linux",
	}
	node.Status.Capacity, node.Status.Allocatable = alloc, alloc
	nc := stubs.NodeClaim("claim-" + name)
	for k, v := range node.Labels {
		nc.Labels[k] = v
	}
	nc.Status.ProviderID, nc.Status.NodeName = pid, name
	nc.Status.Capacity, nc.Status.Allocatable = alloc, alloc
	return node, nc
}

func VerifC06_ConsolidationDecision() {
	gate := verifrt.Bool("featureGate.spotToSpot")
	ctx := opopts.ToContext(context.Background(), &opopts.Options{IgnoreDRARequests: true, MinValuesPolicy: opopts.MinValuesPolicyStrict,
		FeatureGates: opopts.FeatureGates{SpotToSpotConsolidation: gate}})
	now := time.Unix(1700000000, 0)
	clk := &stubs.Clock{Frozen: true}
	clk.Set(now)
	kc := &stubs.Client{Clock: clk}
	cp := stubs.ManagedProvider()
	cluster := state.NewCluster(clk, kc, cp)
	rec := &stubs.Recorder{}

	// quick tier with two candidates: only the smallest type has symbolic availability
	two := verifrt.Choice("candidates", 1, 2) == 2
	allAvail := !two || verifrt.Bound("fullAvailability", 0, 1) == 1
	types := []*kType{kMakeType("it-s", 2, true), kMakeType("it-m", 4, allAvail), kMakeType("it-l", 8, allAvail)}
	for _, t := range types {
		cp.InstanceTypes = append(cp.InstanceTypes, t.it)
	}
	pool := &v1.NodePool{}
	pool.Name, pool.UID = "pool-1", "uid-pool-1"
	pool.Spec.Template.Spec.NodeClassRef = &v1.NodeClassReference{Group: stubs.NodeClassGroup, Kind: stubs.NodeClassKind, Name: "default"}
	d := 30 * time.Second
	pool.Spec.Disruption.ConsolidateAfter = v1.NillableDuration{Duration: &d}
	pool.Spec.Disruption.ConsolidationPolicy = v1.ConsolidationPolicyWhenEmptyOrUnderutilized
	onDemandOnly := verifrt.Choice("pool.onDemandOnly", 0, 1) == 1
	if onDemandOnly {
		pool.Spec.Template.Spec.Requirements = []v1.NodeSelectorRequirementWithMinValues{{Key: v1.CapacityTypeLabelKey, Operator: corev1.NodeSelectorOpIn, Values: []string{v1.CapacityTypeOnDemand}}}
	}
	pool.StatusConditions().SetTrue(status.ConditionReady)
	kc.Pools = append(kc.Pools, pool)

	// the candidate: an it-l node, on-demand or spot
	candCT := []string{v1.CapacityTypeOnDemand, v1.CapacityTypeSpot}[verifrt.Choice("candidate.capacityType", 0, 1)]
	alloc := corev1.ResourceList{corev1.ResourceCPU: resource.MustParse("8"), corev1.ResourceMemory: resource.MustParse("8Gi"), corev1.ResourcePods: resource.MustParse("110")}
	node1, nc1 := kNode("node-1", "verif://i-1", "it-l", candCT, alloc)
	stubs.SetCondition(nc1, v1.ConditionTypeInitialized, metav1.ConditionTrue, now.Add(-time.Hour))
	stubs.SetCondition(nc1, v1.ConditionTypeConsolidatable, metav1.ConditionTrue, now.Add(-time.Minute))
	// the other node: a second candidate (multi-node consolidation) or a node that stays, with symbolic allocatable cpu
	otherAlloc := corev1.ResourceList{corev1.ResourceCPU: verifrt.MilliQuantity("other.cpu", 0, 8000), corev1.ResourceMemory: resource.MustParse("8Gi"), corev1.ResourcePods: resource.MustParse("110")}
	otherCT := v1.CapacityTypeOnDemand
	if two {
		otherAlloc = alloc
		otherCT = []string{v1.CapacityTypeOnDemand, v1.CapacityTypeSpot}[verifrt.Choice("candidate2.capacityType", 0, 1)]
	}
	node2, nc2 := kNode("node-2", "verif://i-2", "it-l", otherCT, otherAlloc)
	stubs.SetCondition(nc2, v1.ConditionTypeInitialized, metav1.ConditionTrue, now.Add(-time.Hour))
	stubs.SetCondition(nc2, v1.ConditionTypeConsolidatable, metav1.ConditionTrue, now.Add(-time.Minute))
	kc.Claims = append(kc.Claims, nc1, nc2)
	kc.Nodes = append(kc.Nodes, node1, node2)
	cluster.UpdateNodeClaim(nc1)
	cluster.UpdateNodeClaim(nc2)

	mkPod := func(name, nodeName string) (*corev1.Pod, resource.Quantity) {
		cpu := verifrt.MilliQuantity(name+".cpu", 1, 8000)
		p := &corev1.Pod{}
		p.Name, p.Namespace = name, "default"
		p.UID = k8stypes.UID("uid-" + name)
		p.Spec.NodeName = nodeName
		p.Status.Phase = corev1.PodRunning
		p.Status.Conditions = []corev1.PodCondition{{Type: corev1.PodScheduled, Status: corev1.ConditionTrue}}
		p.OwnerReferences = []metav1.OwnerReference{{APIVersion: "apps/v1", Kind: "ReplicaSet", Name: "rs"}}
		p.Spec.Containers = []corev1.Container{{Name: "main", Resources: corev1.ResourceRequirements{Requests: corev1.ResourceList{corev1.ResourceCPU: cpu}}}}
		kc.Pods = append(kc.Pods, p)
		return p, cpu
	}
	verifrt.Assert(cluster.UpdateNode(ctx, node1) == nil && cluster.UpdateNode(ctx, node2) == nil, "nodes are accepted by cluster state")
	pods, cpus := []*corev1.Pod{}, []resource.Quantity{}
	p1, c1 := mkPod("pod-1", node1.Name)
	pods, cpus = append(pods, p1), append(cpus, c1)
	if two {
		p2, c2 := mkPod("pod-2", node2.Name)
		pods, cpus = append(pods, p2), append(cpus, c2)
	}
	for _, p := range pods {
		verifrt.Assert(cluster.UpdatePod(ctx, p) == nil, "the pod is accepted by cluster state")
	}

	prov := provisioning.NewProvisioner(kc, rec, cp, cluster, clk, nil, nil)
	queue := NewQueue(kc, rec, cluster, clk, prov)
	c := MakeConsolidation(clk, cluster, kc, prov, cp, rec, queue)
	limits, err := pdb.NewLimits(ctx, kc)
	verifrt.Assert(err == nil, "PDB limits are built")
	itMap := map[string]*cloudprovider.InstanceType{}
	for _, t := range types {
		itMap[t.it.Name] = t.it
	}
	var cands []*Candidate
	candPrice := 0.0
	allSpot := true
	for _, name := range []string{"node-1", "node-2"} {
		if name == "node-2" && !two {
			continue
		}
		var sn *state.StateNode
		for n := range cluster.Nodes() {
			if n.Name() == name {
				sn = n
			}
		}
		cand, cerr := NewCandidate(ctx, kc, rec, clk, sn, limits, map[string]*v1.NodePool{"pool-1": pool}, map[string]map[string]*cloudprovider.InstanceType{"pool-1": itMap}, queue, GracefulDisruptionClass)
		if cerr != nil {
			return
		}
		cands = append(cands, cand)
		candPrice += cand.Price
		allSpot = allSpot && cand.capacityType == v1.CapacityTypeSpot
	}
	verifrt.Reach("candidates")

	cmd, err := c.computeConsolidation(ctx, cands...)
	if err != nil || cmd.Decision() == NoOpDecision {
		return
	}
	verifrt.Reach("command")
	verifrt.Observe("decision", string(cmd.Decision()))
	verifrt.Observe("replacements", len(cmd.Replacements))

	// ---- every reschedulable pod of the removed nodes has a home ----
	verifrt.Assert(len(cmd.Replacements) <= 1, "at most one replacement NodeClaim")
	onNew := resource.Quantity{}
	for k, p := range pods {
		placed := 0
		for _, en := range cmd.Results.ExistingNodes {
			for _, q := range en.Pods {
				if q.UID == p.UID {
					placed++
					verifrt.Assert(!two && en.Name() == "node-2", "pods move only to nodes that stay")
					free := otherAlloc[corev1.ResourceCPU]
					verifrt.Assert(cpus[k].Cmp(free) <= 0, "a pod moved to an existing node fits its allocatable")
				}
			}
		}
		for _, r := range cmd.Replacements {
			for _, q := range r.NodeClaim.Pods {
				if q.UID == p.UID {
					placed++
					onNew.Add(cpus[k])
				}
			}
		}
		verifrt.Assert(placed == 1, "every reschedulable pod of the removed nodes has exactly one new home")
	}

	// ---- the replacement is strictly cheaper, whatever it is launched as ----
	for _, r := range cmd.Replacements {
		verifrt.Reach("replacement")
		reqs := r.NodeClaim.Requirements
		ctr := reqs.Get(v1.CapacityTypeLabelKey)
		verifrt.Assert(len(r.NodeClaim.InstanceTypeOptions) > 0, "a replacement has at least one launch option")
		if allSpot && ctr.Has(v1.CapacityTypeSpot) {
			verifrt.Reach("spot-to-spot")
			verifrt.Assert(gate, "spot-to-spot replacement needs the feature gate")
			verifrt.Assert(two || len(r.NodeClaim.InstanceTypeOptions) >= MinInstanceTypesForSpotToSpotConsolidation, "single-node spot-to-spot replacement needs enough cheaper alternatives")
		}
		for _, it := range r.NodeClaim.InstanceTypeOptions {
			var t *kType
			for _, k := range types {
				if k.it == it {
					t = k
				}
			}
			verifrt.Assert(t != nil, "launch options come from the catalogue")
			if t == nil {
				continue
			}
			verifrt.Assert(onNew.CmpInt64(t.cpu) <= 0, "the pods moved to the replacement fit every launch option")
			for _, o := range t.offers {
				if o.available && ctr.Has(o.ct) && (!onDemandOnly || o.ct == v1.CapacityTypeOnDemand) {
					verifrt.Reach("offering-checked")
					verifrt.Assert(o.price < candPrice, "every offering the replacement may be launched into is strictly cheaper than the nodes it replaces")
				}
			}
		}
	}
}

// Single-node spot-to-spot: 14 filler types with fixed cheap spot prices plus two types with symbolic spot price and
// availability, so that the number of cheaper alternatives crosses the threshold of 15.
func VerifC06_SpotToSpotSingleNode() {
	gate := verifrt.Bool("featureGate.spotToSpot")
	ctx := opopts.ToContext(context.Background(), &opopts.Options{IgnoreDRARequests: true, MinValuesPolicy: opopts.MinValuesPolicyStrict,
		FeatureGates: opopts.FeatureGates{SpotToSpotConsolidation: gate}})
	now := time.Unix(1700000000, 0)
	clk := &stubs.Clock{Frozen: true}
	clk.Set(now)
	kc := &stubs.Client{Clock: clk}
	cp := stubs.ManagedProvider()
	cluster := state.NewCluster(clk, kc, cp)
	rec := &stubs.Recorder{}

	spotOnly := func(name string, price float64, available bool) *kType {
		t := &kType{cpu: 4, offers: []kOffer{{ct: v1.CapacityTypeSpot, price: price, available: available}}}
		t.it = &cloudprovider.InstanceType{
			Name: name,
			Requirements: scheduling.NewRequirements(
				scheduling.NewRequirement(corev1.LabelInstanceTypeStable, corev1.NodeSelectorOpIn, name),
				scheduling.NewRequirement(corev1.LabelTopologyZone, corev1.NodeSelectorOpIn, "zone-1"),
				scheduling.NewRequirement(v1.CapacityTypeLabelKey, corev1.NodeSelectorOpIn, v1.CapacityTypeSpot),
				scheduling.NewRequirement(corev1.LabelArchStable, corev1.NodeSelectorOpIn, "amd64"),
				scheduling.NewRequirement(corev1.LabelOSStable, corev1.NodeSelectorOpIn, "linux"),
			),
			Offerings: cloudprovider.Offerings{&cloudprovider.Offering{Available: available, Price: price, Requirements: scheduling.NewRequirements(
				scheduling.NewRequirement(corev1.LabelTopologyZone, corev1.NodeSelectorOpIn, "zone-1"),
				scheduling.NewRequirement(v1.CapacityTypeLabelKey, corev1.NodeSelectorOpIn, v1.CapacityTypeSpot),
			)}},
			Capacity: corev1.ResourceList{corev1.ResourceCPU: resource.MustParse("4"), corev1.ResourceMemory: resource.MustParse("8Gi"), corev1.ResourcePods: resource.MustParse("110")},
			Overhead: &cloudprovider.InstanceTypeOverhead{},
		}
		return t
	}
	var types []*kType
	fillers := verifrt.Choice("fillers", verifrt.Bound("minFillers", 14, 13), 14)
	distinct := verifrt.Bound("distinctFillerPrices", 0, 1) == 1
	for k := 0; k < fillers; k++ {
		price := 8.0 / 1024
		if distinct {
			price = float64(k+1) / 1024
		}
		types = append(types, spotOnly("it-f"+string(rune('a'+k)), price, true))
	}
	for _, name := range []string{"it-x", "it-y"} {
		types = append(types, spotOnly(name, float64(verifrt.IntRange(name+".spot.price", 1, 1<<20))/1024, verifrt.Bool(name+".spot.available")))
	}
	// the candidate's own type
	own := spotOnly("it-own", float64(verifrt.IntRange("it-own.spot.price", 1, 1<<20))/1024, true)
	types = append(types, own)
	itMap := map[string]*cloudprovider.InstanceType{}
	for _, t := range types {
		cp.InstanceTypes = append(cp.InstanceTypes, t.it)
		itMap[t.it.Name] = t.it
	}
	pool := &v1.NodePool{}
	pool.Name, pool.UID = "pool-1", "uid-pool-1"
	pool.Spec.Template.Spec.NodeClassRef = &v1.NodeClassReference{Group: stubs.NodeClassGroup, Kind: stubs.NodeClassKind, Name: "default"}
	d := 30 * time.Second
	pool.Spec.Disruption.ConsolidateAfter = v1.NillableDuration{Duration: &d}
	pool.Spec.Disruption.ConsolidationPolicy = v1.ConsolidationPolicyWhenEmptyOrUnderutilized
	pool.StatusConditions().SetTrue(status.ConditionReady)
	kc.Pools = append(kc.Pools, pool)

	alloc := corev1.ResourceList{corev1.ResourceCPU: resource.MustParse("4"), corev1.ResourceMemory: resource.MustParse("8Gi"), corev1.ResourcePods: resource.MustParse("110")}
	node1, nc1 := kNode("node-1", "verif://i-1", "it-own", v1.CapacityTypeSpot, alloc)
	stubs.SetCondition(nc1, v1.ConditionTypeInitialized, metav1.ConditionTrue, now.Add(-time.Hour))
	stubs.SetCondition(nc1, v1.ConditionTypeConsolidatable, metav1.ConditionTrue, now.Add(-time.Minute))
	kc.Claims = append(kc.Claims, nc1)
	kc.Nodes = append(kc.Nodes, node1)
	cluster.UpdateNodeClaim(nc1)
	verifrt.Assert(cluster.UpdateNode(ctx, node1) == nil, "the node is accepted by cluster state")
	p := &corev1.Pod{}
	p.Name, p.Namespace, p.UID = "pod-1", "default", "uid-pod-1"
	p.Spec.NodeName = node1.Name
	p.Status.Phase = corev1.PodRunning
	p.Status.Conditions = []corev1.PodCondition{{Type: corev1.PodScheduled, Status: corev1.ConditionTrue}}
	p.OwnerReferences = []metav1.OwnerReference{{APIVersion: "apps/v1", Kind: "ReplicaSet", Name: "rs"}}
	p.Spec.Containers = []corev1.Container{{Name: "main", Resources: corev1.ResourceRequirements{Requests: corev1.ResourceList{corev1.ResourceCPU: resource.MustParse("1")}}}}
	kc.Pods = append(kc.Pods, p)
	verifrt.Assert(cluster.UpdatePod(ctx, p) == nil, "the pod is accepted by cluster state")

	prov := provisioning.NewProvisioner(kc, rec, cp, cluster, clk, nil, nil)
	queue := NewQueue(kc, rec, cluster, clk, prov)
	c := MakeConsolidation(clk, cluster, kc, prov, cp, rec, queue)
	limits, err := pdb.NewLimits(ctx, kc)
	verifrt.Assert(err == nil, "PDB limits are built")
	var sn *state.StateNode
	for n := range cluster.Nodes() {
		sn = n
	}
	cand, cerr := NewCandidate(ctx, kc, rec, clk, sn, limits, map[string]*v1.NodePool{"pool-1": pool}, map[string]map[string]*cloudprovider.InstanceType{"pool-1": itMap}, queue, GracefulDisruptionClass)
	if cerr != nil {
		return
	}
	cmd, err := c.computeConsolidation(ctx, cand)
	if err != nil || cmd.Decision() == NoOpDecision {
		return
	}
	verifrt.Reach("command")
	verifrt.Assert(len(cmd.Replacements) == 1, "a non-empty spot node is replaced, not just deleted")
	cheaper := 0
	for _, t := range types {
		if t.offers[0].available && t.offers[0].price < cand.Price {
			cheaper++
		}
	}
	for _, r := range cmd.Replacements {
		verifrt.Assert(gate, "spot-to-spot replacement needs the feature gate")
		verifrt.Assert(cheaper >= MinInstanceTypesForSpotToSpotConsolidation, "single-node spot-to-spot replacement needs at least 15 cheaper alternatives")
		verifrt.Assert(len(r.NodeClaim.InstanceTypeOptions) == MinInstanceTypesForSpotToSpotConsolidation, "the launch request is capped at the 15 cheapest alternatives")
		for _, it := range r.NodeClaim.InstanceTypeOptions {
			for _, t := range types {
				if t.it == it {
					verifrt.Assert(t.offers[0].available && t.offers[0].price < cand.Price, "every offering the replacement may be launched into is strictly cheaper than the node it replaces")
				}
			}
		}
	}
}

// Reserved offerings: an exhausted (unavailable) reserved offering must not make an instance type look cheap when it
// can only be launched from a dearer available offering.
func VerifC06_DecisionWithReservedOfferings() {
	const resLabel = "karpenter.test.sh/reservation-id"
	v1.WellKnownLabels = v1.WellKnownLabels.Insert(resLabel)
	cloudprovider.ReservationIDLabel = resLabel
	cloudprovider.ReservedCapacityLabels.Insert(resLabel)

	ctx := opopts.ToContext(context.Background(), &opopts.Options{IgnoreDRARequests: true, MinValuesPolicy: opopts.MinValuesPolicyStrict,
		FeatureGates: opopts.FeatureGates{ReservedCapacity: true}})
	now := time.Unix(1700000000, 0)
	clk := &stubs.Clock{Frozen: true}
	clk.Set(now)
	kc := &stubs.Client{Clock: clk}
	cp := stubs.ManagedProvider()
	cluster := state.NewCluster(clk, kc, cp)
	rec := &stubs.Recorder{}

	mk := func(name string, cpu int64, reserved bool) *kType {
		t := &kType{cpu: cpu}
		cts := []string{v1.CapacityTypeOnDemand}
		if reserved {
			cts = append(cts, v1.CapacityTypeReserved)
		}
		var ofs cloudprovider.Offerings
		reqs := scheduling.NewRequirements(
			scheduling.NewRequirement(corev1.LabelInstanceTypeStable, corev1.NodeSelectorOpIn, name),
			scheduling.NewRequirement(corev1.LabelTopologyZone, corev1.NodeSelectorOpIn, "zone-1"),
			scheduling.NewRequirement(v1.CapacityTypeLabelKey, corev1.NodeSelectorOpIn, cts...),
			scheduling.NewRequirement(corev1.LabelArchStable, corev1.NodeSelectorOpIn, "amd64"),
			scheduling.NewRequirement(corev1.LabelOSStable, corev1.NodeSelectorOpIn, "linux"),
		)
		for _, ct := range cts {
			o := kOffer{ct: ct, price: float64(verifrt.IntRange(name+"."+ct+".price", 1, 1<<20)) / 1024, available: true}
			oreqs := scheduling.NewRequirements(
				scheduling.NewRequirement(corev1.LabelTopologyZone, corev1.NodeSelectorOpIn, "zone-1"),
				scheduling.NewRequirement(v1.CapacityTypeLabelKey, corev1.NodeSelectorOpIn, ct),
			)
			capacity := 0
			if ct == v1.CapacityTypeReserved {
				// an exhausted reservation is listed as unavailable with no capacity left
				o.available = verifrt.Bool(name + ".reserved.available")
				if o.available {
					capacity = 1
				}
				oreqs.Add(scheduling.NewRequirement(resLabel, corev1.NodeSelectorOpIn, "r-"+name))
				reqs.Add(scheduling.NewRequirement(resLabel, corev1.NodeSelectorOpIn, "r-"+name))
			}
			t.offers = append(t.offers, o)
			ofs = append(ofs, &cloudprovider.Offering{Available: o.available, Price: o.price, ReservationCapacity: capacity, Requirements: oreqs})
		}
		t.it = &cloudprovider.InstanceType{Name: name, Requirements: reqs, Offerings: ofs,
			Capacity: corev1.ResourceList{corev1.ResourceCPU: *resource.NewQuantity(cpu, resource.DecimalSI), corev1.ResourceMemory: resource.MustParse("8Gi"), corev1.ResourcePods: resource.MustParse("110")},
			Overhead: &cloudprovider.InstanceTypeOverhead{}}
		return t
	}
	types := []*kType{mk("it-s", 4, true), mk("it-l", 8, false)}
	itMap := map[string]*cloudprovider.InstanceType{}
	for _, t := range types {
		cp.InstanceTypes = append(cp.InstanceTypes, t.it)
		itMap[t.it.Name] = t.it
	}
	pool := &v1.NodePool{}
	pool.Name, pool.UID = "pool-1", "uid-pool-1"
	pool.Spec.Template.Spec.NodeClassRef = &v1.NodeClassReference{Group: stubs.NodeClassGroup, Kind: stubs.NodeClassKind, Name: "default"}
	d := 30 * time.Second
	pool.Spec.Disruption.ConsolidateAfter = v1.NillableDuration{Duration: &d}
	pool.Spec.Disruption.ConsolidationPolicy = v1.ConsolidationPolicyWhenEmptyOrUnderutilized
	pool.Spec.Template.Spec.Requirements = []v1.NodeSelectorRequirementWithMinValues{{Key: v1.CapacityTypeLabelKey, Operator: corev1.NodeSelectorOpIn, Values: []string{v1.CapacityTypeOnDemand, v1.CapacityTypeReserved}}}
	pool.StatusConditions().SetTrue(status.ConditionReady)
	kc.Pools = append(kc.Pools, pool)

	alloc := corev1.ResourceList{corev1.ResourceCPU: resource.MustParse("8"), corev1.ResourceMemory: resource.MustParse("8Gi"), corev1.ResourcePods: resource.MustParse("110")}
	node1, nc1 := kNode("node-1", "verif://i-1", "it-l", v1.CapacityTypeOnDemand, alloc)
	stubs.SetCondition(nc1, v1.ConditionTypeInitialized, metav1.ConditionTrue, now.Add(-time.Hour))
	stubs.SetCondition(nc1, v1.ConditionTypeConsolidatable, metav1.ConditionTrue, now.Add(-time.Minute))
	kc.Claims = append(kc.Claims, nc1)
	kc.Nodes = append(kc.Nodes, node1)
	cluster.UpdateNodeClaim(nc1)
	verifrt.Assert(cluster.UpdateNode(ctx, node1) == nil, "the node is accepted by cluster state")
	p := &corev1.Pod{}
	p.Name, p.Namespace, p.UID = "pod-1", "default", "uid-pod-1"
	p.Spec.NodeName = node1.Name
	p.Status.Phase = corev1.PodRunning
	p.Status.Conditions = []corev1.PodCondition{{Type: corev1.PodScheduled, Status: corev1.ConditionTrue}}
	p.OwnerReferences = []metav1.OwnerReference{{APIVersion: "apps/v1", Kind: "ReplicaSet", Name: "rs"}}
	p.Spec.Containers = []corev1.Container{{Name: "main", Resources: corev1.ResourceRequirements{Requests: corev1.ResourceList{corev1.ResourceCPU: verifrt.MilliQuantity("pod.cpu", 1, 8000)}}}}
	kc.Pods = append(kc.Pods, p)
	verifrt.Assert(cluster.UpdatePod(ctx, p) == nil, "the pod is accepted by cluster state")

	prov := provisioning.NewProvisioner(kc, rec, cp, cluster, clk, nil, nil)
	queue := NewQueue(kc, rec, cluster, clk, prov)
	c := MakeConsolidation(clk, cluster, kc, prov, cp, rec, queue)
	limits, err := pdb.NewLimits(ctx, kc)
	verifrt.Assert(err == nil, "PDB limits are built")
	var sn *state.StateNode
	for n := range cluster.Nodes() {
		sn = n
	}
	cand, cerr := NewCandidate(ctx, kc, rec, clk, sn, limits, map[string]*v1.NodePool{"pool-1": pool}, map[string]map[string]*cloudprovider.InstanceType{"pool-1": itMap}, queue, GracefulDisruptionClass)
	if cerr != nil {
		return
	}
	cmd, err := c.computeConsolidation(ctx, cand)
	if err != nil || cmd.Decision() == NoOpDecision {
		return
	}
	verifrt.Reach("command")
	for _, r := range cmd.Replacements {
		verifrt.Reach("replacement")
		ctr := r.NodeClaim.Requirements.Get(v1.CapacityTypeLabelKey)
		for _, it := range r.NodeClaim.InstanceTypeOptions {
			for _, t := range types {
				if t.it != it {
					continue
				}
				for _, o := range t.offers {
					if ctr.Has(o.ct) {
						verifrt.Assert(!o.available || o.price < cand.Price, "every available offering the replacement may be launched into is strictly cheaper than the node it replaces (an exhausted reservation does not count)")
					}
				}
			}
		}
	}
}
