//go:build verif

// verif:dir pkg/scheduling/dynamicresources
//
// C17 (DRA, shared counters) — the allocation tracker's counter book-keeping, one step at a time from a committed
// state: for every in-flight NodeClaim the pool's remaining counter budget is charged with the largest consumption
// among the instance types the NodeClaim still retains (it will be launched as one of them), so after any commit or
// release of instance types   remaining = total - sum over NodeClaims of max over retained instance types,
// never more (an over-refund would let a later allocation over-consume the shared counter) and never negative.
//
// verif:assume C17: one pool with one counter of symbolic total, 2 NodeClaims x 2 instance types with symbolic per-instance-type consumption 0..1000 (an instance type may consume nothing), histories of commit (per NodeClaim, once) and release of any subset of a NodeClaim's instance types, 3 (4) operations; exclusive devices, consumable capacity, template counters and the allocator's DFS are outside

package dynamicresources

import (
	"strconv"
	"unique"

	resourcev1 "k8s.io/api/resource/v1"
	"k8s.io/apimachinery/pkg/api/resource"

	"sigs.k8s.io/karpenter/pkg/verifrt"
)

func VerifC17_SharedCounterBookkeeping() {
	pool := PoolKey{Driver: unique.Make("driver-a"), Pool: unique.Make("pool-a")}
	total := verifrt.IntRange("counter.total", 0, 4000)
	at := NewAllocationTracker(AllocatedDeviceState{})
	at.RemainingCounters[pool] = map[string]map[string]resourcev1.Counter{"set": {"memory": {Value: *resource.NewQuantity(int64(total), resource.DecimalSI)}}}
	ncs := []NodeClaimID{unique.Make("nc-a"), unique.Make("nc-b")}
	its := []InstanceTypeID{unique.Make("it-a"), unique.Make("it-b")}
	// ghost: consumption per NodeClaim and retained instance type (-1 = not retained / not committed)
	ghost := [][]int{{-1, -1}, {-1, -1}}
	committed := []bool{false, false}
	spent := func() int {
		s := 0
		for n := range ghost {
			max := 0
			for _, c := range ghost[n] {
				if c > max {
					max = c
				}
			}
			s += max
		}
		return s
	}
	steps := verifrt.Bound("history", 3, 4)
	for k := 0; k < steps; k++ {
		n := verifrt.Choice("op-"+strconv.Itoa(k)+".nodeClaim", 0, 1)
		if !committed[n] {
			cons := map[InstanceTypeID]map[PoolKey]map[string]map[string]resourcev1.Counter{}
			for i, it := range its {
				c := verifrt.IntRange("consumption."+strconv.Itoa(n)+"."+strconv.Itoa(i), 0, 1000)
				ghost[n][i] = c
				if c > 0 {
					cons[it] = map[PoolKey]map[string]map[string]resourcev1.Counter{pool: {"set": {"memory": {Value: *resource.NewQuantity(int64(c), resource.DecimalSI)}}}}
				}
			}
			// the allocator only commits what the remaining budget covers
			verifrt.Assume(spent() <= total)
			at.commitCounters(ncs[n], cons)
			committed[n] = true
			verifrt.Reach("committed")
		} else {
			mask := verifrt.Choice("op-"+strconv.Itoa(k)+".release", 1, 3)
			var rel []InstanceTypeID
			for i, it := range its {
				if mask&(1<<i) != 0 {
					rel = append(rel, it)
					ghost[n][i] = -1
				}
			}
			at.releaseCounters(ncs[n], rel)
			verifrt.Reach("released")
		}
		rem := at.RemainingCounters[pool]["set"]["memory"].Value
		want := resource.NewQuantity(int64(total-spent()), resource.DecimalSI)
		verifrt.Assert(rem.Cmp(*want) == 0, "the remaining shared-counter budget is the total minus, per NodeClaim, the largest consumption among the instance types it still retains")
		verifrt.Assert(rem.Sign() >= 0, "a shared counter is never over-consumed")
	}
}
