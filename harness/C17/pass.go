//go:build verif

// verif:dir pkg/controllers/provisioning
//
// C17 (whole pass, capacity reservations) — Provisioner.Schedule (strict reserved-offering mode, as the provisioner
// runs it) the number of NodeClaims that hold a reservation never
// exceeds its capacity, a NodeClaim that holds reservations is pinned to reserved capacity with exactly those
// reservation ids, and a pod is deferred (reported with a reserved-offering error) rather than silently falling back
// when compatible reserved capacity exists but cannot be held any more.
//
// verif:assume C17: one NodePool, 2 instance types (8 cpu) sharing reservation r-1 (symbolic capacity 0..3), the first also offering r-2 (symbolic capacity 0..2), both with an on-demand offering; 2..3 pending pods of symbolic cpu up to 8 cores (they may share a node), optionally restricted to on-demand; DRA off
// verif:pure ^sigs\.k8s\.io/karpenter/pkg/utils/resources\.(Fits|Cmp)$
// verif:pure ^\(\*sigs\.k8s\.io/karpenter/pkg/scheduling\.Requirement\)\.(Has|Len|Operator)$

package provisioning

import (
	"strconv"

	corev1 "k8s.io/api/core/v1"
	"k8s.io/apimachinery/pkg/api/resource"

	v1 "sigs.k8s.io/karpenter/pkg/apis/v1"
	"sigs.k8s.io/karpenter/pkg/cloudprovider"
	scheduler "sigs.k8s.io/karpenter/pkg/controllers/provisioning/scheduling"
	opopts "sigs.k8s.io/karpenter/pkg/operator/options"
	"sigs.k8s.io/karpenter/pkg/scheduling"
	"sigs.k8s.io/karpenter/pkg/verifrt"
)

const vLabel = "karpenter.test.sh/reservation-id"

func vReserved(it *cloudprovider.InstanceType, id string, capacity int) {
	it.Offerings = append(it.Offerings, &cloudprovider.Offering{Available: capacity > 0, Price: 0.1, ReservationCapacity: capacity, Requirements: scheduling.NewRequirements(
		scheduling.NewRequirement(corev1.LabelTopologyZone, corev1.NodeSelectorOpIn, "zone-1"),
		scheduling.NewRequirement(v1.CapacityTypeLabelKey, corev1.NodeSelectorOpIn, v1.CapacityTypeReserved),
		scheduling.NewRequirement(vLabel, corev1.NodeSelectorOpIn, id),
	)})
	it.Requirements[v1.CapacityTypeLabelKey] = scheduling.NewRequirement(v1.CapacityTypeLabelKey, corev1.NodeSelectorOpIn, v1.CapacityTypeOnDemand, v1.CapacityTypeReserved)
	if it.Requirements.Has(vLabel) {
		it.Requirements[vLabel].Insert(id)
	} else {
		it.Requirements.Add(scheduling.NewRequirement(vLabel, corev1.NodeSelectorOpIn, id))
	}
}

func VerifC17_PassNeverOvercommitsReservations() {
	// what a cloud provider's init does for reserved capacity (cf. pkg/cloudprovider/fake)
	v1.WellKnownLabels = v1.WellKnownLabels.Insert(vLabel)
	cloudprovider.ReservationIDLabel = vLabel
	cloudprovider.ReservedCapacityLabels.Insert(vLabel)

	w := pwNew(&opopts.Options{FeatureGates: opopts.FeatureGates{ReservedCapacity: true}})
	w.addPool("pool-1", 0)
	od := []pwOffer{{zone: "zone-1", ct: v1.CapacityTypeOnDemand, price: 1, available: true}}
	a := w.addType("it-a", resource.MustParse("8"), od)
	b := w.addType("it-b", resource.MustParse("8"), od)
	capacity := map[string]int{"r-1": verifrt.Choice("capacity.r-1", 0, 3), "r-2": verifrt.Choice("capacity.r-2", 0, 2)}
	vReserved(a.it, "r-1", capacity["r-1"])
	vReserved(b.it, "r-1", capacity["r-1"])
	vReserved(a.it, "r-2", capacity["r-2"])

	n := verifrt.Choice("pendingPods", 2, verifrt.Bound("maxPending", 2, 3))
	onDemandOnly := make([]bool, n)
	var pods []*corev1.Pod
	for i := 0; i < n; i++ {
		p := w.addPod("pending-"+strconv.Itoa(i), "", verifrt.MilliQuantity("pending-"+strconv.Itoa(i)+".cpu", 1, 8000))
		if verifrt.Choice("pending-"+strconv.Itoa(i)+".onDemandOnly", 0, 1) == 1 {
			onDemandOnly[i] = true
			p.Spec.NodeSelector = map[string]string{v1.CapacityTypeLabelKey: v1.CapacityTypeOnDemand}
		}
		pods = append(pods, p)
	}
	w.deliver()

	results, err := w.prov.Schedule(w.ctx)
	verifrt.Assert(err == nil, "the scheduling pass completes")
	verifrt.Reach("pass")

	holders := map[string]int{}
	for _, nc := range results.NewNodeClaims {
		ctr := nc.Requirements.Get(v1.CapacityTypeLabelKey)
		if nc.Requirements.Has(vLabel) {
			verifrt.Reach("reserved-nodeclaim")
			verifrt.Assert(nc.Requirements.Has(v1.CapacityTypeLabelKey) && ctr.Has(v1.CapacityTypeReserved) && ctr.Len() == 1, "a NodeClaim that holds reservations is pinned to reserved capacity")
			ids := nc.Requirements.Get(vLabel)
			for _, id := range []string{"r-1", "r-2"} {
				if ids.Has(id) {
					holders[id]++
				}
			}
			verifrt.Assert(!ids.Has("r-3") && ids.Len() >= 1 && ids.Len() <= 2, "the reservation ids of a NodeClaim are reservations that exist")
		}
	}
	for _, id := range []string{"r-1", "r-2"} {
		verifrt.Assert(holders[id] <= capacity[id], "the NodeClaims of one pass never hold a reservation beyond its capacity")
	}
	// strict mode: a pod that could use reserved capacity does not silently fall back to on-demand
	anyReserved := capacity["r-1"] > 0 || capacity["r-2"] > 0
	// (a pod may still join an in-flight on-demand NodeClaim that an on-demand-only pod opened: that is not a fallback)
	for _, nc := range results.NewNodeClaims {
		restricted := false
		for _, q := range nc.Pods {
			for i, p := range pods {
				if p.UID == q.UID && onDemandOnly[i] {
					restricted = true
				}
			}
		}
		if !restricted && anyReserved {
			verifrt.Assert(nc.Requirements.Has(vLabel), "while compatible reserved capacity exists a NodeClaim for unrestricted pods holds a reservation: pods are deferred, never silently moved to on-demand")
		}
	}
	for i, p := range pods {
		pl, _ := pwFind(results, p.UID)
		if pl.claim == nil && pl.err != nil && scheduler.IsReservedOfferingError(pl.err) {
			verifrt.Reach("deferred")
			verifrt.Assert(anyReserved && !onDemandOnly[i], "only pods that could use reserved capacity are deferred for it")
		}
	}
}
