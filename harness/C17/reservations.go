//go:build verif

// verif:dir pkg/controllers/provisioning/scheduling
//
// C17 (capacity reservations) — within one scheduling pass the number of NodeClaims that hold a reservation
// never exceeds its capacity; a NodeClaim that holds reservations is pinned to reserved capacity with exactly
// those reservation ids; in strict mode a pod is deferred rather than silently falling back when compatible
// reserved capacity exists but is exhausted (DESIGN §7 C17-1..4).
//
// A bounded history of the real NodeClaim-level operations: a speculative evaluation (offeringsToReserve,
// as CanAdd does) for one of the in-flight NodeClaims under one of several requirement sets, followed by a
// commit (the real NodeClaim.Add) or not. Reservation capacities are symbolic.
//
// verif:assume C17: 2 reservation ids shared by 2 instance types, up to 3 in-flight NodeClaims, histories of 3 (quick) / 4 (thorough) evaluate[/commit] steps, capacities in 0..3; DRA off
// verif:assume C17: the DRA allocator search (Allocator.Allocate, CEL selectors, partitionable devices, consumable capacity) is outside this check

package scheduling

import (
	"context"
	"errors"
	"strconv"

	corev1 "k8s.io/api/core/v1"
	"k8s.io/apimachinery/pkg/types"

	v1 "sigs.k8s.io/karpenter/pkg/apis/v1"
	"sigs.k8s.io/karpenter/pkg/cloudprovider"
	opopts "sigs.k8s.io/karpenter/pkg/operator/options"
	"sigs.k8s.io/karpenter/pkg/scheduling"
	"sigs.k8s.io/karpenter/pkg/verifrt"
)

func rOffering(capacityType, zone, reservation string, capacity int, available bool) *cloudprovider.Offering {
	reqs := scheduling.NewRequirements(
		scheduling.NewRequirement(v1.CapacityTypeLabelKey, corev1.NodeSelectorOpIn, capacityType),
		scheduling.NewRequirement(corev1.LabelTopologyZone, corev1.NodeSelectorOpIn, zone),
	)
	if reservation != "" {
		reqs.Add(scheduling.NewRequirement(cloudprovider.ReservationIDLabel, corev1.NodeSelectorOpIn, reservation))
	}
	return &cloudprovider.Offering{Requirements: reqs, Price: 1, Available: available, ReservationCapacity: capacity}
}

const rLabel = "karpenter.test.sh/reservation-id"

// rRegisterProvider does what a cloud provider's init does for reserved capacity (cf. pkg/cloudprovider/fake).
func rRegisterProvider() {
	v1.WellKnownLabels = v1.WellKnownLabels.Insert(rLabel)
	cloudprovider.ReservationIDLabel = rLabel
	cloudprovider.ReservedCapacityLabels.Insert(rLabel)
}

func VerifC17_ReservationHistory() {
	rRegisterProvider()
	ctx := opopts.ToContext(context.Background(), &opopts.Options{FeatureGates: opopts.FeatureGates{ReservedCapacity: true}})
	capacity := map[string]int{"r-1": verifrt.IntRange("capacity.r-1", 0, 3), "r-2": verifrt.IntRange("capacity.r-2", 0, 3)}
	// r-1 is offered in zone-1 by both types (shared across NodePools, possibly with a stale larger capacity), r-2 in zone-2 by the first
	stale := capacity["r-1"] + verifrt.IntRange("stale.extra", 0, 2)
	its := []*cloudprovider.InstanceType{
		{Name: "it-a", Offerings: cloudprovider.Offerings{
			rOffering(v1.CapacityTypeReserved, "zone-1", "r-1", capacity["r-1"], true),
			rOffering(v1.CapacityTypeReserved, "zone-2", "r-2", capacity["r-2"], true),
			rOffering(v1.CapacityTypeOnDemand, "zone-1", "", 0, true),
		}},
		{Name: "it-b", Offerings: cloudprovider.Offerings{
			rOffering(v1.CapacityTypeReserved, "zone-1", "r-1", stale, true),
			rOffering(v1.CapacityTypeOnDemand, "zone-2", "", 0, true),
		}},
	}
	rm := NewReservationManager(map[string][]*cloudprovider.InstanceType{"pool-a": its[:1], "pool-b": its[1:]})
	strict := verifrt.Choice("strict", 0, 1) == 1
	mode := ReservedOfferingModeFallback
	if strict {
		mode = ReservedOfferingModeStrict
	}
	// quick: 3 NodeClaims, 3 steps; thorough: 2 NodeClaims, 4 steps (3 x 4 does not finish; histories of any length are
	// covered, as far as the manager's invariant goes, by VerifC17_ReservationStep)
	nClaims := verifrt.Bound("claims", 3, 2)
	var claims []*NodeClaim
	for i := 0; i < nClaims; i++ {
		claims = append(claims, &NodeClaim{reservationManager: rm, topology: &Topology{}, hostname: "host-" + strconv.Itoa(i), reservedOfferingMode: mode})
	}
	reqSets := []scheduling.Requirements{
		scheduling.NewRequirements(),
		scheduling.NewRequirements(scheduling.NewRequirement(corev1.LabelTopologyZone, corev1.NodeSelectorOpIn, "zone-1")),
		scheduling.NewRequirements(scheduling.NewRequirement(corev1.LabelTopologyZone, corev1.NodeSelectorOpIn, "zone-2")),
	}
	zonesOf := [][]string{{"zone-1", "zone-2"}, {"zone-1"}, {"zone-2"}}
	held := map[string]map[string]bool{} // ghost: hostname -> reservation ids held
	holders := func(r string) int {
		n := 0
		for _, h := range held {
			if h[r] {
				n++
			}
		}
		return n
	}
	steps := verifrt.Bound("history", 3, 4)
	for step := 0; step < steps; step++ {
		c := claims[verifrt.Choice("claim", 0, nClaims-1)]
		k := verifrt.Choice("requirements", 0, 2)
		before := map[string]int{"r-1": rm.RemainingCapacity(its[0].Offerings[0]), "r-2": rm.RemainingCapacity(its[0].Offerings[1])}
		ofs, err := c.offeringsToReserve(ctx, its, reqSets[k])
		// a speculative evaluation changes nothing
		verifrt.Assert(rm.RemainingCapacity(its[0].Offerings[0]) == before["r-1"] && rm.RemainingCapacity(its[0].Offerings[1]) == before["r-2"], "evaluating a placement does not change reservations")
		// what was returned
		compatibleExists := false
		for _, it := range its {
			for _, o := range it.Offerings {
				if o.CapacityType() != v1.CapacityTypeReserved {
					continue
				}
				for _, z := range zonesOf[k] {
					if o.Zone() == z {
						compatibleExists = true
					}
				}
			}
		}
		for _, o := range ofs {
			inZone := false
			for _, z := range zonesOf[k] {
				inZone = inZone || o.Zone() == z
			}
			verifrt.Assert(o.CapacityType() == v1.CapacityTypeReserved && o.Available && inZone, "only compatible available reserved offerings are selected for reservation")
			verifrt.Assert(held[c.hostname][o.ReservationID()] || holders(o.ReservationID()) < capacity[o.ReservationID()], "an offering is selected only if this NodeClaim already holds it or capacity is left")
		}
		var roe ReservedOfferingError
		if err != nil {
			verifrt.Assert(errors.As(err, &roe) && strict, "only strict mode defers a pod for reserved capacity")
			verifrt.Assert(len(ofs) == 0 && (compatibleExists || len(c.reservedOfferings) != 0), "a pod is deferred only when compatible reserved capacity exists but cannot be reserved")
			verifrt.Reach("deferred")
			continue
		}
		if strict && compatibleExists {
			verifrt.Assert(len(ofs) > 0, "strict mode never falls back silently when compatible reserved capacity exists")
		}
		if verifrt.Choice("commit", 0, 1) == 0 {
			continue
		}
		pod := &corev1.Pod{}
		pod.Name = "pod-" + strconv.Itoa(step)
		pod.UID = types.UID("uid-" + pod.Name)
		c.Add(ctx, pod, &PodData{}, reqSets[k], its, ofs, nil, nil) // must not panic ("over-reserve")
		now := map[string]bool{}
		for _, o := range ofs {
			now[o.ReservationID()] = true
		}
		held[c.hostname] = now
		for _, r := range []string{"r-1", "r-2"} {
			verifrt.Assert(holders(r) <= capacity[r], "the NodeClaims holding a reservation never exceed its capacity")
		}
		verifrt.Assert(rm.RemainingCapacity(its[0].Offerings[0]) == capacity["r-1"]-holders("r-1") && rm.RemainingCapacity(its[0].Offerings[1]) == capacity["r-2"]-holders("r-2"), "remaining capacity = capacity minus holders")
		if len(ofs) > 0 {
			verifrt.Reach("reserved")
		}
	}
	// finalisation pins every holder to reserved capacity with exactly its reservation ids
	for _, c := range claims {
		if len(c.Pods) == 0 {
			continue
		}
		c.Requirements = scheduling.NewRequirements(c.Requirements.Values()...)
		c.FinalizeScheduling()
		ct, rid := c.Requirements.Get(v1.CapacityTypeLabelKey), c.Requirements.Get(cloudprovider.ReservationIDLabel)
		if len(held[c.hostname]) > 0 {
			verifrt.Assert(ct.Has(v1.CapacityTypeReserved) && !ct.Has(v1.CapacityTypeOnDemand) && !ct.Has(v1.CapacityTypeSpot), "a NodeClaim that holds reservations is pinned to reserved capacity")
			for _, r := range []string{"r-1", "r-2"} {
				verifrt.Assert(rid.Has(r) == held[c.hostname][r], "a NodeClaim is pinned to exactly the reservation ids it holds")
			}
			verifrt.Reach("pinned")
		} else {
			verifrt.Assert(!c.Requirements.Has(cloudprovider.ReservationIDLabel), "a NodeClaim without reservations is not pinned")
		}
	}
}

// One step from an arbitrary consistent reservation state (set up through the real Reserve): the acting NodeClaim
// evaluates a placement under one of the requirement sets and commits it. Covers histories of any length as far as the
// invariant "remaining = capacity - holders, holders <= capacity, every NodeClaim's own list = what the manager holds
// for it" is concerned — in particular a reserved set that is swapped for another one of the same size.
func VerifC17_ReservationStep() {
	rRegisterProvider()
	ctx := opopts.ToContext(context.Background(), &opopts.Options{FeatureGates: opopts.FeatureGates{ReservedCapacity: true}})
	capacity := map[string]int{"r-1": verifrt.IntRange("capacity.r-1", 0, 3), "r-2": verifrt.IntRange("capacity.r-2", 0, 3)}
	its := []*cloudprovider.InstanceType{
		{Name: "it-a", Offerings: cloudprovider.Offerings{
			rOffering(v1.CapacityTypeReserved, "zone-1", "r-1", capacity["r-1"], true),
			rOffering(v1.CapacityTypeReserved, "zone-2", "r-2", capacity["r-2"], true),
			rOffering(v1.CapacityTypeOnDemand, "zone-1", "", 0, true),
		}},
	}
	byID := map[string]*cloudprovider.Offering{"r-1": its[0].Offerings[0], "r-2": its[0].Offerings[1]}
	rm := NewReservationManager(map[string][]*cloudprovider.InstanceType{"pool-a": its})
	mode := ReservedOfferingModeFallback
	if verifrt.Choice("strict", 0, 1) == 1 {
		mode = ReservedOfferingModeStrict
	}
	ids := []string{"r-1", "r-2"}
	held := map[string]map[string]bool{}
	var claims []*NodeClaim
	for i := 0; i < 3; i++ {
		c := &NodeClaim{reservationManager: rm, topology: &Topology{}, hostname: "host-" + strconv.Itoa(i), reservedOfferingMode: mode}
		mask := verifrt.Choice("pre."+c.hostname+".holds", 0, 3)
		held[c.hostname] = map[string]bool{}
		for k, id := range ids {
			if mask&(1<<k) != 0 {
				held[c.hostname][id] = true
				c.reservedOfferings = append(c.reservedOfferings, byID[id])
			}
		}
		claims = append(claims, c)
	}
	holders := func(r string) int {
		n := 0
		for _, h := range held {
			if h[r] {
				n++
			}
		}
		return n
	}
	for _, id := range ids {
		verifrt.Assume(holders(id) <= capacity[id])
	}
	for _, c := range claims {
		rm.Reserve(c.hostname, c.reservedOfferings...)
	}
	for _, id := range ids {
		verifrt.Assert(rm.RemainingCapacity(byID[id]) == capacity[id]-holders(id), "the pre-state is consistent")
	}

	c := claims[0]
	reqSets := []scheduling.Requirements{
		scheduling.NewRequirements(),
		scheduling.NewRequirements(scheduling.NewRequirement(corev1.LabelTopologyZone, corev1.NodeSelectorOpIn, "zone-1")),
		scheduling.NewRequirements(scheduling.NewRequirement(corev1.LabelTopologyZone, corev1.NodeSelectorOpIn, "zone-2")),
	}
	k := verifrt.Choice("requirements", 0, 2)
	ofs, err := c.offeringsToReserve(ctx, its, reqSets[k])
	for _, id := range ids {
		verifrt.Assert(rm.RemainingCapacity(byID[id]) == capacity[id]-holders(id), "evaluating a placement does not change reservations")
	}
	if err != nil {
		verifrt.Reach("deferred")
		return
	}
	pod := &corev1.Pod{}
	pod.Name, pod.UID = "pod-x", types.UID("uid-pod-x")
	c.Add(ctx, pod, &PodData{}, reqSets[k], its, ofs, nil, nil)
	now := map[string]bool{}
	for _, o := range ofs {
		now[o.ReservationID()] = true
	}
	if len(now) == len(held[c.hostname]) && len(now) == 1 && !now["r-1"] == held[c.hostname]["r-1"] {
		verifrt.Reach("swapped-for-same-size")
	}
	held[c.hostname] = now
	for _, id := range ids {
		verifrt.Assert(holders(id) <= capacity[id], "the NodeClaims holding a reservation never exceed its capacity")
		verifrt.Assert(rm.RemainingCapacity(byID[id]) == capacity[id]-holders(id), "remaining capacity = capacity minus holders")
		verifrt.Assert(rm.HasReservation(c.hostname, byID[id]) == now[id], "the manager holds for a NodeClaim exactly the reservations the NodeClaim lists")
	}
}
