//go:build verif

// verif:dir pkg/controllers/provisioning/scheduling
//
// C03 (resource limits inside one scheduling pass) — after a NodeClaim is opened, whichever of its
// remaining instance types the provider launches, the pool's remaining limit stays non-negative and the
// bookkeeping for the rest of the pass has subtracted at least what the launched node will consume
// (DESIGN §7 C03-1). One inductive step from an arbitrary remaining-limits state.
//
// verif:assume C03: 3 limited resources (cpu, memory, nodes), up to 2 (quick) / 3 (thorough) instance types, capacities in 0..10^6 whole units
// verif:assume C03: a launched node consumes its instance type's capacity plus one `nodes` unit (what StateNode.Capacity() reports)

package scheduling

import (
	"strconv"

	corev1 "k8s.io/api/core/v1"
	"k8s.io/apimachinery/pkg/api/resource"

	"sigs.k8s.io/karpenter/pkg/cloudprovider"
	"sigs.k8s.io/karpenter/pkg/utils/resources"
	"sigs.k8s.io/karpenter/pkg/verifrt"
)

func VerifC03_LimitsStep() {
	keys := []corev1.ResourceName{corev1.ResourceCPU, corev1.ResourceMemory, resources.Node}
	remaining := corev1.ResourceList{}
	limited := []bool{verifrt.Choice("limit.cpu", 0, 1) == 1, verifrt.Choice("limit.memory", 0, 1) == 1, verifrt.Choice("limit.nodes", 0, 1) == 1}
	for i, k := range keys {
		if limited[i] {
			remaining[k] = verifrt.Quantity("remaining."+string(k), 0, 1000000)
		}
	}
	n := verifrt.Choice("instanceTypes", 1, verifrt.Bound("instanceTypes", 2, 3))
	var its []*cloudprovider.InstanceType
	for i := 0; i < n; i++ {
		its = append(its, &cloudprovider.InstanceType{Name: "it-" + strconv.Itoa(i), Capacity: corev1.ResourceList{
			corev1.ResourceCPU:    verifrt.Quantity("cpu", 0, 1000000),
			corev1.ResourceMemory: verifrt.Quantity("memory", 0, 1000000),
		}})
	}
	// what Scheduler.addToNewNodeClaim does for a template with limits
	if nodes, ok := remaining[resources.Node]; ok && nodes.IsZero() {
		return // "node limits have been exhausted": no NodeClaim is opened
	}
	filtered := filterByRemainingResources(its, remaining)
	if len(filtered) == 0 {
		return
	}
	// CanAdd may narrow the options further: any non-empty subset
	mask := verifrt.Choice("narrowed", 1, (1<<len(filtered))-1)
	var opts []*cloudprovider.InstanceType
	for i, it := range filtered {
		if mask&(1<<i) != 0 {
			opts = append(opts, it)
		}
	}
	if limited[0] && limited[1] && len(opts) >= 2 {
		verifrt.Reach("two-options-two-limits")
	}
	after := subtractMax(remaining, opts)
	// C03-F3: subtractMax subtracts it.Capacity, which has no `nodes` entry, so limits.nodes is not decremented within a pass
	verifrt.KnownFinding("C03-F3", limited[2])
	one := resource.MustParse("1")
	for _, it := range opts {
		consumed := corev1.ResourceList{corev1.ResourceCPU: it.Capacity[corev1.ResourceCPU], corev1.ResourceMemory: it.Capacity[corev1.ResourceMemory], resources.Node: one}
		for i, k := range keys {
			if !limited[i] {
				continue
			}
			rem, use, aft := remaining[k], consumed[k], after[k]
			verifrt.Assert(use.Cmp(rem) <= 0, "no launch option of a newly opened NodeClaim exceeds the pool's remaining limit")
			left := rem.DeepCopy()
			left.Sub(use)
			verifrt.Assert(aft.Cmp(left) <= 0, "the remaining limit carried through the pass accounts for at least what the launched node consumes")
		}
	}
}
