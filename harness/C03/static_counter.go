//go:build verif

// verif:dir pkg/controllers/state
//
// C03 (static NodePool bookkeeping) — the number of NodeClaims of a static NodePool never exceeds its
// node limit and the bookkeeping never crashes, for every interleaving of reserve / release /
// NodeClaim create / delete / pending-disruption events (DESIGN §7 C03-3, Appendix D).
//
// Bounded public-API histories from the constructor: K operations over one pool and two NodeClaim
// names, every numeric argument symbolic. Ghost state: which claims exist and in which state, and the
// number of granted-but-not-released reservations. Caller protocol (read off the call sites):
// a claim is marked only while it exists, Cleanup is called for existing claims, Release returns
// between one unit and what was granted.
//
// verif:assume C03: sequential model of NodePoolState (every public method takes the one mutex, so a sequence of calls is a linearisation of concurrent callers)
// verif:assume C03: histories of at most 4 (quick) / 5 (thorough) operations, one pool, two NodeClaim names; limits and counts in 0..1000

package state

import (
	v1 "sigs.k8s.io/karpenter/pkg/apis/v1"
	"sigs.k8s.io/karpenter/pkg/verifrt"
)

const (
	kAbsent = iota
	kActive
	kDeleting
	kPending
)

func VerifC03_StaticCounterHistory() {
	const pool = "static-pool"
	names := []string{"nc-a", "nc-b"}
	s := NewNodePoolState()
	ghost := []int{kAbsent, kAbsent}
	outstanding := 0
	droppedPending, collectedWhileReserved := false, false
	steps := verifrt.Bound("history", 4, 5)
	for step := 0; step < steps; step++ {
		op := verifrt.Choice("op", 0, 5)
		c := 0
		if op <= 2 {
			c = verifrt.Choice("claim", 0, 1)
		}
		switch op {
		case 0: // informer: NodeClaim seen (created/updated), marked for deletion or not
			marked := verifrt.Choice("marked", 0, 1) == 1
			nc := &v1.NodeClaim{}
			nc.Name = names[c]
			nc.Labels = map[string]string{v1.NodePoolLabelKey: pool}
			s.UpdateNodeClaim(nc, marked)
			if marked {
				ghost[c] = kDeleting
			} else {
				ghost[c] = kActive
			}
		case 1: // static drift: an existing claim is about to be replaced
			verifrt.Assume(ghost[c] != kAbsent)
			s.MarkNodeClaimPendingDisruption(pool, names[c])
			ghost[c] = kPending
		case 2: // informer: NodeClaim gone
			verifrt.Assume(ghost[c] != kAbsent)
			ghost[c] = kAbsent
			live, pending := 0, 0
			for _, g := range ghost {
				if g == kActive || g == kDeleting {
					live++
				}
				if g == kPending {
					pending++
				}
			}
			// C03-F2: the pool entry is collected as soon as no Active/Deleting claim is left, dropping PendingDisruption claims
			droppedPending = droppedPending || (live == 0 && pending > 0)
			// C03-F1: ... and dropping the reservation counter, so a later Release dereferences a nil counter
			collectedWhileReserved = collectedWhileReserved || (live == 0 && outstanding > 0)
			verifrt.KnownFinding("C03-F2", droppedPending)
			verifrt.KnownFinding("C03-F1", collectedWhileReserved)
			s.Cleanup(names[c])
		case 3: // provisioning / static drift: reserve against the node limit
			limit := verifrt.IntRange("limit", 0, 1000)
			want := verifrt.IntRange("want", 0, 1000)
			existing := 0
			for _, g := range ghost {
				if g != kAbsent {
					existing++
				}
			}
			verifrt.KnownFinding("C03-F2", droppedPending)
			verifrt.KnownFinding("C03-F1", collectedWhileReserved)
			granted := int(s.ReserveNodeCount(pool, int64(limit), int64(want)))
			verifrt.Observe("granted", granted)
			verifrt.Assert(granted >= 0 && granted <= want, "a reservation grants between zero and what was asked")
			verifrt.Assert(granted == 0 || existing+outstanding+granted <= limit, "existing NodeClaims plus outstanding reservations never exceed the node limit")
			outstanding += granted
			if granted > 0 {
				verifrt.Reach("granted")
			}
		case 4: // the reserver gives back (part of) what it was granted
			n := verifrt.IntRange("release", 1, 1000) // callers release one unit per granted unit
			verifrt.Assume(n <= outstanding)
			verifrt.KnownFinding("C03-F1", collectedWhileReserved)
			s.ReleaseNodeCount(pool, int64(n)) // must not crash
			outstanding -= n
		case 5: // stop early
			return
		}
		a, d, p := s.GetNodeCount(pool)
		ga, gd, gp := 0, 0, 0
		for _, g := range ghost {
			switch g {
			case kActive:
				ga++
			case kDeleting:
				gd++
			case kPending:
				gp++
			}
		}
		verifrt.KnownFinding("C03-F2", droppedPending)
		verifrt.Assert(a == ga && d == gd && p == gp, "node counts per state equal the NodeClaims that exist in that state")
	}
}
