//go:build verif

// verif:dir pkg/controllers/provisioning
//
// C03 (limits across scheduling rounds) — consecutive Provisioner.Reconcile calls for the same pending pod under a
// NodePool cpu limit: while the NodeClaim of the first round is still unlaunched (its capacity is invisible to the
// scheduler and to the limit check) no further NodeClaim is created, and after it is launched as its largest permitted
// instance type the NodePool's capacity plus whatever later rounds open stays within the limit.
//
// verif:assume C03: one NodePool with a symbolic cpu limit 0..32, 2 instance types (4 and 16 cpu), one pending pod of symbolic cpu; three reconciles with the batching window closing at once; between them the NodeClaim is delivered unlaunched, then launched as the largest instance type it permits
// verif:pure ^sigs\.k8s\.io/karpenter/pkg/utils/resources\.(Fits|Cmp)$
// verif:pure ^\(\*sigs\.k8s\.io/karpenter/pkg/scheduling\.Requirement\)\.(Has|Len|Operator)$

package provisioning

import (
	"time"

	corev1 "k8s.io/api/core/v1"
	"k8s.io/apimachinery/pkg/api/resource"
	metav1 "k8s.io/apimachinery/pkg/apis/meta/v1"

	v1 "sigs.k8s.io/karpenter/pkg/apis/v1"
	opopts "sigs.k8s.io/karpenter/pkg/operator/options"
	"sigs.k8s.io/karpenter/pkg/scheduling"
	"sigs.k8s.io/karpenter/pkg/verifrt"
	"sigs.k8s.io/karpenter/pkg/verifrt/stubs"
)

func VerifC03_LimitHoldsAcrossRounds() {
	w := pwNew(&opopts.Options{BatchMaxDuration: 10 * time.Second, BatchIdleDuration: time.Second})
	pool := w.addPool("pool-1", 0)
	limit := verifrt.IntRange("limit.cpu", 0, 32)
	pool.Spec.Limits = v1.Limits{corev1.ResourceCPU: *resource.NewQuantity(int64(limit), resource.DecimalSI)}
	offers := []pwOffer{{zone: "zone-1", ct: v1.CapacityTypeOnDemand, price: 1, available: true}}
	w.addType("it-m", resource.MustParse("4"), offers)
	w.addType("it-l", resource.MustParse("16"), offers)
	p := w.addPod("pending-0", "", verifrt.MilliQuantity("pending.cpu", 1, 16000))
	w.deliver()

	w.prov.Trigger(p.UID)
	_, err := w.prov.Reconcile(w.ctx)
	verifrt.Assert(err == nil, "the first reconcile completes")
	if len(w.kc.Claims) == 0 {
		return // nothing fits within the limit
	}
	verifrt.Reach("first-nodeclaim")
	verifrt.Assert(len(w.kc.Claims) == 1, "one pod opens one NodeClaim")
	nc := w.kc.Claims[0]
	if nc.Name == "" {
		nc.Name = "pool-1-generated"
	}
	nc.UID = "uid-generated"
	w.cluster.UpdateNodeClaim(nc) // delivered, not launched yet

	w.prov.Trigger(p.UID)
	_, err = w.prov.Reconcile(w.ctx)
	verifrt.Assert(err == nil, "the second reconcile completes")
	verifrt.Assert(len(w.kc.Claims) == 1, "no further NodeClaim is opened while the first one's capacity is not visible yet")

	// launched as the largest instance type the NodeClaim permits
	reqs := scheduling.NewNodeSelectorRequirementsWithMinValues(nc.Spec.Requirements...)
	launched := int64(4)
	itName := "it-m"
	if reqs.Get(corev1.LabelInstanceTypeStable).Has("it-l") {
		launched, itName = 16, "it-l"
	}
	verifrt.Assert(launched <= int64(limit), "a NodeClaim never permits an instance type that would exceed the NodePool's limit")
	nc.Status.ProviderID = "verif://i-1"
	nc.Labels[corev1.LabelInstanceTypeStable], nc.Labels[v1.CapacityTypeLabelKey], nc.Labels[corev1.LabelTopologyZone] = itName, v1.CapacityTypeOnDemand, "zone-1"
	nc.Status.Capacity, nc.Status.Allocatable = pwList(*resource.NewQuantity(launched, resource.DecimalSI)), pwList(*resource.NewQuantity(launched, resource.DecimalSI))
	stubs.SetCondition(nc, v1.ConditionTypeLaunched, metav1.ConditionTrue, w.now)
	w.cluster.UpdateNodeClaim(nc)

	w.prov.Trigger(p.UID)
	_, err = w.prov.Reconcile(w.ctx)
	verifrt.Assert(err == nil, "the third reconcile completes")
	total := launched
	for _, other := range w.kc.Claims[1:] {
		r := scheduling.NewNodeSelectorRequirementsWithMinValues(other.Spec.Requirements...)
		if r.Get(corev1.LabelInstanceTypeStable).Has("it-l") {
			total += 16
		} else {
			total += 4
		}
	}
	verifrt.Assert(total <= int64(limit), "the NodePool's capacity stays within its limit however many scheduling rounds it takes")
}
