//go:build verif

// verif:dir pkg/controllers/provisioning
//
// C03 (whole pass, dynamic NodePool limits) — Provisioner.Schedule with a limited NodePool: the capacity of the
// NodePool's existing nodes plus, for every NodeClaim the pass opens, the capacity of the largest instance type it may
// still be launched as stays within the NodePool's cpu limit, and the number of nodes within its node limit — whichever
// permitted instance type the provider picks.
//
// verif:assume C03: one NodePool with a symbolic cpu limit (0..64 cores) and an optional symbolic node limit (0..4); 2 instance types (4 and 16 cpu); zero or one existing node of the pool (16 cpu) that may carry a bound pod; 2..3 pending pods of symbolic cpu; no DaemonSets; a second unlimited NodePool of lower weight may exist (its NodeClaims are not counted)
// verif:pure ^sigs\.k8s\.io/karpenter/pkg/utils/resources\.(Fits|Cmp)$
// verif:pure ^\(\*sigs\.k8s\.io/karpenter/pkg/scheduling\.Requirement\)\.(Has|Len|Operator)$

package provisioning

import (
	"strconv"

	corev1 "k8s.io/api/core/v1"
	"k8s.io/apimachinery/pkg/api/resource"

	v1 "sigs.k8s.io/karpenter/pkg/apis/v1"
	opopts "sigs.k8s.io/karpenter/pkg/operator/options"
	"sigs.k8s.io/karpenter/pkg/verifrt"
)

func VerifC03_PassStaysWithinLimits() {
	w := pwNew(&opopts.Options{})
	offers := []pwOffer{{zone: "zone-1", ct: v1.CapacityTypeOnDemand, price: 1, available: true}}
	w.addType("it-m", resource.MustParse("4"), offers)
	w.addType("it-l", resource.MustParse("16"), offers)
	pool := w.addPool("pool-1", 10)
	limitCPU := verifrt.IntRange("limit.cpu", 0, 64)
	pool.Spec.Limits = v1.Limits{corev1.ResourceCPU: *resource.NewQuantity(int64(limitCPU), resource.DecimalSI)}
	limitNodes := -1
	if verifrt.Choice("limit.nodes.set", 0, 1) == 1 {
		limitNodes = verifrt.IntRange("limit.nodes", 0, 4)
		pool.Spec.Limits[corev1.ResourceName("nodes")] = *resource.NewQuantity(int64(limitNodes), resource.DecimalSI)
	}
	if verifrt.Choice("fallbackPool", 0, 1) == 1 {
		w.addPool("pool-2", 0)
	}
	existing := verifrt.Choice("existingNode", 0, 1)
	if existing == 1 {
		w.addNode("node-1", "pool-1", "it-l", v1.CapacityTypeOnDemand, "zone-1", pwList(resource.MustParse("16")), pwInitialized)
		w.addPod("bound-1", "node-1", verifrt.MilliQuantity("bound.cpu", 0, 16000))
	}
	n := verifrt.Choice("pendingPods", 2, verifrt.Bound("maxPending", 2, 3))
	for i := 0; i < n; i++ {
		w.addPod("pending-"+strconv.Itoa(i), "", verifrt.MilliQuantity("pending-"+strconv.Itoa(i)+".cpu", 1, 16000))
	}
	w.deliver()

	results, err := w.prov.Schedule(w.ctx)
	verifrt.Assert(err == nil, "the scheduling pass completes")
	verifrt.Reach("pass")

	worst, nodes := int64(16*existing), existing
	for _, nc := range results.NewNodeClaims {
		if nc.NodePoolName != "pool-1" {
			verifrt.Reach("fallback-pool-used")
			continue
		}
		verifrt.Reach("limited-pool-used")
		nodes++
		max := int64(0)
		for _, it := range nc.InstanceTypeOptions {
			t := w.typeOf(it)
			verifrt.Assert(t != nil, "launch options come from the catalogue")
			if t != nil && t.cpu.Value() > max {
				max = t.cpu.Value()
			}
		}
		worst += max
	}
	if len(results.NewNodeClaims) > 0 {
		verifrt.Assert(worst <= int64(limitCPU) || nodes == existing, "existing capacity plus the largest launch option of every NodeClaim opened stays within the NodePool's cpu limit")
		verifrt.Assert(limitNodes < 0 || nodes <= limitNodes || nodes == existing, "the number of nodes stays within the NodePool's node limit")
	}
}
