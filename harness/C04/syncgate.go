//go:build verif

// verif:dir pkg/controllers/state
//
// C04 (sync gate) — no scheduling pass runs while a NodeClaim Karpenter created has not yet been launched:
// after the first sync, Synced() is false exactly while some tracked NodeClaim has no provider id; nodes marked
// for deletion are not counted as capacity (not in Active()).
//
// verif:assume C04: up to 2 NodeClaims; histories of up to 3 events over {NodeClaim created without provider id, NodeClaim launched (provider id set), NodeClaim deleted, node marked for deletion}

package state

import (
	"context"
	"strconv"
	"time"

	"sigs.k8s.io/karpenter/pkg/verifrt"
	"sigs.k8s.io/karpenter/pkg/verifrt/stubs"
)

func VerifC04_SyncGate() {
	ctx := context.Background()
	clk := &stubs.Clock{Frozen: true}
	clk.Set(time.Unix(1700000000, 0))
	kc := &stubs.Client{Clock: clk}
	cp := stubs.ManagedProvider()
	c := NewCluster(clk, kc, cp)
	verifrt.Assert(c.Synced(ctx), "an empty cluster syncs")
	verifrt.Assert(c.HasSynced(), "the first sync is remembered")
	launched := map[string]bool{} // ghost: name -> has a provider id
	marked := map[string]bool{}
	steps := verifrt.Bound("history", 3, 4)
	for s := 0; s < steps; s++ {
		name := "nc-" + strconv.Itoa(verifrt.Choice("claim", 0, 1))
		pid := "verif://" + name
		switch verifrt.Choice("event", 0, 3) {
		case 0: // created by a provisioning pass, not launched yet
			if _, exists := launched[name]; exists {
				continue
			}
			nc := stubs.NodeClaim(name)
			c.UpdateNodeClaim(nc)
			launched[name] = false
		case 1: // launched: the provider id is known
			if _, exists := launched[name]; !exists {
				continue
			}
			nc := stubs.NodeClaim(name)
			nc.Status.ProviderID = pid
			c.UpdateNodeClaim(nc)
			launched[name] = true
		case 2:
			c.DeleteNodeClaim(name)
			delete(launched, name)
			delete(marked, name)
		case 3:
			if launched[name] {
				c.MarkForDeletion(pid)
				marked[name] = true
			}
		}
		pending := false
		for _, l := range launched {
			pending = pending || !l
		}
		verifrt.Assert(c.Synced(ctx) == !pending, "cluster state is synced exactly when every tracked NodeClaim has been launched")
		if pending {
			verifrt.Reach("gate-closed")
		}
		active := 0
		for range StateNodes(c.DeepCopyNodes()).Active() {
			active++
		}
		want := 0
		for n, l := range launched {
			if l && !marked[n] {
				want++
			}
		}
		verifrt.Assert(active == want, "nodes marked for deletion are not counted as capacity")
	}
}
