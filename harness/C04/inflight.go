//go:build verif

// verif:dir pkg/controllers/provisioning/scheduling
//
// C04 (in-flight capacity; same harness body as C01's existing-node step, registered under C04) — a pod is accepted onto an existing node only if its
// summed requests, including the daemonset pods Kubernetes will still place there, stay within allocatable
// and its required node constraints are satisfied by the node's labels; an in-flight NodeClaim counts with the
// allocatable of the instance type it was launched as whether its node has not yet appeared, has registered, or
// has initialized, with startup and ephemeral taints hidden until then (DESIGN §7 C01-2, C01-4, C04-1).
//
// The node is built through the informer entry points of the real cluster state in one of three lifecycle
// stages; the existing-node view is computed by the real Scheduler.calculateExistingNodeClaims.
//
// verif:assume C04: one node, at most one bound pod, one DaemonSet pod (node selector or up to two OR-ed required terms), cpu quantities 0..10^6; provider contract: NodeClaim.Status.Allocatable is the launched type's allocatable and the kubelet reports the same value once it reports one
// verif:pure ^sigs\.k8s\.io/karpenter/pkg/utils/resources\.(Fits|Cmp)$

package scheduling

import (
	"context"
	"time"

	corev1 "k8s.io/api/core/v1"
	metav1 "k8s.io/apimachinery/pkg/apis/meta/v1"
	"k8s.io/apimachinery/pkg/api/resource"

	v1 "sigs.k8s.io/karpenter/pkg/apis/v1"
	"sigs.k8s.io/karpenter/pkg/controllers/state"
	opopts "sigs.k8s.io/karpenter/pkg/operator/options"
	"sigs.k8s.io/karpenter/pkg/scheduling"
	"sigs.k8s.io/karpenter/pkg/utils/resources"
	"sigs.k8s.io/karpenter/pkg/verifrt"
	"sigs.k8s.io/karpenter/pkg/verifrt/stubs"
)

func fPod(name string, cpu resource.Quantity) *corev1.Pod {
	p := &corev1.Pod{}
	p.Name, p.Namespace = name, "default"
	p.UID = "uid-" + p.UID
	p.Status.Phase = corev1.PodRunning
	p.Spec.Containers = []corev1.Container{{Name: "main", Resources: corev1.ResourceRequirements{Requests: corev1.ResourceList{corev1.ResourceCPU: cpu}}}}
	return p
}

func fTerm(zone string) corev1.NodeSelectorTerm {
	return corev1.NodeSelectorTerm{MatchExpressions: []corev1.NodeSelectorRequirement{{Key: corev1.LabelTopologyZone, Operator: corev1.NodeSelectorOpIn, Values: []string{zone}}}}
}

func VerifC04_InflightCapacity() {
	ctx := opopts.ToContext(context.Background(), &opopts.Options{})
	clk := &stubs.Clock{Frozen: true}
	clk.Set(time.Unix(1700000000, 0))
	kc := &stubs.Client{Clock: clk}
	cp := stubs.ManagedProvider()
	cluster := state.NewCluster(clk, kc, cp)
	const pid = "verif://i-1"
	allocatable := verifrt.Quantity("allocatable.cpu", 0, 1000000)
	alloc := corev1.ResourceList{corev1.ResourceCPU: allocatable, corev1.ResourcePods: resource.MustParse("110")}
	labels := map[string]string{corev1.LabelTopologyZone: "zone-1", corev1.LabelInstanceTypeStable: "it-1", v1.NodePoolLabelKey: "pool-1", v1.CapacityTypeLabelKey: v1.CapacityTypeOnDemand}
	startup := corev1.Taint{Key: "example.com/startup", Effect: corev1.TaintEffectNoSchedule}

	nc := stubs.NodeClaim("nc-1")
	for k, v := range labels {
		nc.Labels[k] = v
	}
	nc.Status.ProviderID = pid
	nc.Status.Allocatable, nc.Status.Capacity = alloc, alloc
	nc.Spec.StartupTaints = []corev1.Taint{startup}
	stubs.SetCondition(nc, v1.ConditionTypeLaunched, metav1.ConditionTrue, time.Unix(1699999000, 0))
	kc.Claims = append(kc.Claims, nc)
	cluster.UpdateNodeClaim(nc)

	stage := verifrt.Choice("stage", 0, 2) // 0 NodeClaim only, 1 node registered (not initialized), 2 node initialized
	var node *corev1.Node
	if stage >= 1 {
		node = stubs.Node("node-1", pid, corev1.ConditionFalse)
		node.Labels = map[string]string{v1.NodeRegisteredLabelKey: "true", corev1.LabelHostname: "node-1"}
		for k, v := range labels {
			node.Labels[k] = v
		}
		if stage == 1 {
			node.Spec.Taints = []corev1.Taint{startup, {Key: corev1.TaintNodeNotReady, Effect: corev1.TaintEffectNoSchedule}}
			if verifrt.Choice("kubelet.reported", 0, 1) == 1 {
				node.Status.Allocatable, node.Status.Capacity = alloc, alloc
			}
		} else {
			node.Labels[v1.NodeInitializedLabelKey] = "true"
			node.Status.Conditions[0].Status = corev1.ConditionTrue
			node.Status.Allocatable, node.Status.Capacity = alloc, alloc
		}
		kc.Nodes = append(kc.Nodes, node)
	}
	// a pod already bound to the node
	bound := verifrt.Quantity("bound.cpu", 0, 1000000)
	hasBound := stage >= 1 && verifrt.Choice("bound.pod", 0, 1) == 1
	if hasBound {
		b := fPod("bound-1", bound)
		b.Spec.NodeName = "node-1"
		kc.Pods = append(kc.Pods, b)
	}
	// the DaemonSet pod the provisioner expects on nodes
	dcpu := verifrt.Quantity("daemon.cpu", 0, 1000000)
	daemon := fPod("daemon-template", dcpu)
	daemon.OwnerReferences = []metav1.OwnerReference{{APIVersion: "apps/v1", Kind: "DaemonSet", Name: "ds"}}
	daemonMatches := true // Kubernetes places it on this node: node selector and SOME required term match
		required := func(terms ...corev1.NodeSelectorTerm) {
		daemon.Spec.Affinity = &corev1.Affinity{NodeAffinity: &corev1.NodeAffinity{RequiredDuringSchedulingIgnoredDuringExecution: &corev1.NodeSelector{NodeSelectorTerms: terms}}}
	}
	// the DaemonSet shape whose second OR-ed term matches is C01-F1's subject and is left out here
	shape := verifrt.Choice("daemon.shape", 0, 4)
	if shape == 4 {
		shape = 5
	}
	switch shape {
	case 1:
		daemon.Spec.NodeSelector = map[string]string{corev1.LabelTopologyZone: "zone-1"}
	case 2:
		daemon.Spec.NodeSelector = map[string]string{corev1.LabelTopologyZone: "zone-2"}
		daemonMatches = false
	case 3:
		required(fTerm("zone-1"), fTerm("zone-2"))
	case 4:
		required(fTerm("zone-2"), fTerm("zone-1"))
	case 5:
		required(fTerm("zone-2"))
		daemonMatches = false
	}
	daemonBound := hasBound && daemonMatches && verifrt.Choice("daemon.bound", 0, 1) == 1
	if daemonBound {
		d := daemon.DeepCopy()
		d.Name, d.Spec.NodeName = "daemon-on-node", "node-1"
		kc.Pods = append(kc.Pods, d)
	}
	if node != nil {
		verifrt.Assert(cluster.UpdateNode(ctx, node) == nil, "node tracked")
	}

	s := &Scheduler{topology: &Topology{}, clock: clk, remainingResources: map[string]corev1.ResourceList{}, cluster: cluster}
	s.calculateExistingNodeClaims(ctx, cluster.DeepCopyNodes(), []*corev1.Pod{daemon}, map[string]*v1.NodePool{}, false)
	verifrt.Assert(len(s.existingNodes) == 1, "the in-flight node is part of the simulation")
	en := s.existingNodes[0]

	// what Kubernetes will still consume on this node
	want := allocatable.DeepCopy()
	if hasBound {
		want.Sub(bound)
	}
	if daemonBound {
		want.Sub(dcpu)
	} else if daemonMatches {
		want.Sub(dcpu)
	}
	// C01-F1: only the first OR-ed required term of a DaemonSet pod is evaluated against an existing / in-flight node
	got := en.remainingResources[corev1.ResourceCPU]
	verifrt.Assert(got.Cmp(want) == 0, "remaining resources = allocatable of the launched type minus bound pods minus the daemonset pods still expected, at every lifecycle stage")
	verifrt.Assert(stage == 2 || len(en.cachedTaints) == 0, "startup and ephemeral taints are hidden until the node is initialized")

	// one placement step
	x := fPod("pending-1", verifrt.Quantity("pod.cpu", 0, 1000000))
	zoneSel := verifrt.Choice("pod.zone", 0, 2)
	switch zoneSel {
	case 1:
		x.Spec.NodeSelector = map[string]string{corev1.LabelTopologyZone: "zone-1"}
	case 2:
		x.Spec.NodeSelector = map[string]string{corev1.LabelTopologyZone: "zone-2"}
	}
	pd := &PodData{Requests: resources.RequestsForPods(x), Requirements: scheduling.NewPodRequirements(x), StrictRequirements: scheduling.NewStrictPodRequirements(x)}
	reqs, _, err := en.CanAdd(ctx, x, pd, nil, nil)
	if err != nil {
		return
	}
	verifrt.Reach("accepted")
	xcpu := x.Spec.Containers[0].Resources.Requests[corev1.ResourceCPU]
	verifrt.Assert(xcpu.Cmp(want) <= 0, "an accepted pod's requests fit what is left after bound pods and expected daemonset overhead")
	verifrt.Assert(zoneSel != 2, "an accepted pod's node selector is satisfied by the node's labels")
	en.Add(ctx, x, pd, reqs, nil, nil)
	left := want.DeepCopy()
	left.Sub(xcpu)
	after := en.remainingResources[corev1.ResourceCPU]
	verifrt.Assert(after.Cmp(left) == 0, "placing a pod reduces the remaining resources by exactly its requests")
}
