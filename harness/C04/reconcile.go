//go:build verif

// verif:dir pkg/controllers/provisioning
//
// C04 (sync gate at the provisioner) — Provisioner.Reconcile itself: no scheduling pass runs, and so no NodeClaim is
// created, while a NodeClaim Karpenter created has not yet been launched (it has no provider id, so its capacity is
// invisible to the scheduler) — also after the cluster state has been in sync before. Once the NodeClaim is launched the
// pending pod lands on it and no second NodeClaim is opened.
//
// verif:assume C04: one NodePool, one instance type, one plain pending pod; consecutive Provisioner.Reconcile calls with the batching window closing at once (timers fire immediately); between them the NodeClaim created by the first pass is delivered to the cluster state unlaunched, then launched
// verif:pure ^sigs\.k8s\.io/karpenter/pkg/utils/resources\.(Fits|Cmp)$
// verif:pure ^\(\*sigs\.k8s\.io/karpenter/pkg/scheduling\.Requirement\)\.(Has|Len|Operator)$

package provisioning

import (
	"time"

	"k8s.io/apimachinery/pkg/api/resource"
	metav1 "k8s.io/apimachinery/pkg/apis/meta/v1"

	v1 "sigs.k8s.io/karpenter/pkg/apis/v1"
	opopts "sigs.k8s.io/karpenter/pkg/operator/options"
	"sigs.k8s.io/karpenter/pkg/verifrt"
	"sigs.k8s.io/karpenter/pkg/verifrt/stubs"
)

func VerifC04_ReconcileWaitsForLaunch() {
	w := pwNew(&opopts.Options{BatchMaxDuration: 10 * time.Second, BatchIdleDuration: time.Second})
	w.addPool("pool-1", 0)
	w.addType("it-l", resource.MustParse("16"), []pwOffer{{zone: "zone-1", ct: v1.CapacityTypeOnDemand, price: 1, available: true}})
	p := w.addPod("pending-0", "", verifrt.MilliQuantity("pending.cpu", 1, 16000))
	w.deliver()

	// pass 1: the state is in sync, the pod gets a NodeClaim
	w.prov.Trigger(p.UID)
	_, err := w.prov.Reconcile(w.ctx)
	verifrt.Assert(err == nil, "the first reconcile completes")
	verifrt.Assert(w.cluster.HasSynced(), "the cluster state has been in sync once")
	created := len(w.kc.Claims)
	verifrt.Assert(created == 1, "the pending pod gets one NodeClaim")
	if created != 1 {
		return
	}
	nc := w.kc.Claims[0]
	if nc.Name == "" {
		nc.Name = "pool-1-generated"
	}
	nc.UID = "uid-generated"
	// the informer delivers the new NodeClaim: created, not yet launched
	w.cluster.UpdateNodeClaim(nc)

	// pass 2: nothing may be scheduled while that NodeClaim is unlaunched
	if verifrt.Choice("reconcileWhileUnlaunched", 0, 1) == 1 {
		w.prov.Trigger(p.UID)
		_, err = w.prov.Reconcile(w.ctx)
		verifrt.Assert(err == nil, "the second reconcile completes")
		verifrt.Reach("reconciled-while-unlaunched")
		verifrt.Assert(len(w.kc.Claims) == 1, "no scheduling pass runs (no NodeClaim is created) while a NodeClaim Karpenter created has not yet been launched")
	}

	// the NodeClaim is launched: provider id and resolved capacity are recorded
	nc.Status.ProviderID = "verif://i-1"
	nc.Labels[v1.CapacityTypeLabelKey] = v1.CapacityTypeOnDemand
	nc.Status.Capacity, nc.Status.Allocatable = pwList(resource.MustParse("16")), pwList(resource.MustParse("16"))
	stubs.SetCondition(nc, v1.ConditionTypeLaunched, metav1.ConditionTrue, w.now)
	w.cluster.UpdateNodeClaim(nc)

	// pass 3: the pod fits the in-flight NodeClaim
	w.prov.Trigger(p.UID)
	_, err = w.prov.Reconcile(w.ctx)
	verifrt.Assert(err == nil, "the third reconcile completes")
	verifrt.Assert(len(w.kc.Claims) == 1, "re-running provisioning for a pod whose capacity is still starting does not add another NodeClaim")
}
