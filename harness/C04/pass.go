//go:build verif

// verif:dir pkg/controllers/provisioning
//
// C04 (whole pass) — Provisioner.Schedule on a real cluster state: a plain pending pod is put on a new NodeClaim only
// if the existing node or in-flight NodeClaim could not admit it next to what is already assigned there; this holds
// whether the capacity is only launched, registered or initialized, so re-running provisioning while capacity is
// still starting does not add a node; a node marked for deletion is not counted as capacity.
//
// verif:assume C04: one NodePool, 2 instance types, one existing node/NodeClaim of symbolic allocatable cpu in one of three lifecycle stages (or marked for deletion) carrying one bound pod of symbolic cpu; 1..2 pending pods of symbolic cpu without constraints or preferences; no DaemonSets, volumes, DRA, PDBs
// verif:pure ^sigs\.k8s\.io/karpenter/pkg/utils/resources\.(Fits|Cmp)$
// verif:pure ^\(\*sigs\.k8s\.io/karpenter/pkg/scheduling\.Requirement\)\.(Has|Len|Operator)$

package provisioning

import (
	"strconv"

	corev1 "k8s.io/api/core/v1"
	"k8s.io/apimachinery/pkg/api/resource"

	v1 "sigs.k8s.io/karpenter/pkg/apis/v1"
	opopts "sigs.k8s.io/karpenter/pkg/operator/options"
	"sigs.k8s.io/karpenter/pkg/verifrt"
)

func VerifC04_PassOpensCapacityOnlyWhenNeeded() {
	w := pwNew(&opopts.Options{})
	w.addPool("pool-1", 0)
	offers := []pwOffer{{zone: "zone-1", ct: v1.CapacityTypeOnDemand, price: 1, available: true}}
	w.addType("it-m", resource.MustParse("4"), offers)
	w.addType("it-l", resource.MustParse("16"), offers)

	stage := verifrt.Choice("node.stage", pwLaunched, pwInitialized)
	marked := verifrt.Choice("node.markedForDeletion", 0, 1) == 1
	alloc := verifrt.MilliQuantity("node.cpu", 0, 16000)
	var kubelet []corev1.ResourceList
	if stage == pwRegistered && verifrt.Choice("kubelet.reportsYet", 0, 1) == 0 {
		// the node has joined but does not report its resources yet: the provider-resolved allocatable still counts
		kubelet = append(kubelet, corev1.ResourceList{})
	}
	node, nc := w.addNode("node-1", "pool-1", "it-l", v1.CapacityTypeOnDemand, "zone-1", pwList(alloc), stage, kubelet...)
	bound := resource.Quantity{}
	if stage >= pwRegistered && verifrt.Choice("boundPod", 0, 1) == 1 {
		bound = verifrt.MilliQuantity("bound.cpu", 0, 16000)
		w.addPod("bound-1", "node-1", bound)
	}
	n := verifrt.Choice("pendingPods", 1, 2)
	var cpus []resource.Quantity
	for i := 0; i < n; i++ {
		c := verifrt.MilliQuantity("pending-"+strconv.Itoa(i)+".cpu", 1, 16000)
		cpus = append(cpus, c)
		w.addPod("pending-"+strconv.Itoa(i), "", c)
	}
	w.deliver()
	if marked {
		w.cluster.MarkForDeletion(nc.Status.ProviderID)
		// ordinary updates of the Node or the NodeClaim arriving afterwards do not lift the mark
		switch verifrt.Choice("updateAfterMark", 0, 2) {
		case 1:
			if node != nil {
				node.Annotations = map[string]string{"example.com/touched": "true"}
				verifrt.Assert(w.cluster.UpdateNode(w.ctx, node) == nil, "the node update is accepted by cluster state")
			}
		case 2:
			nc.Annotations = map[string]string{"example.com/touched": "true"}
			w.cluster.UpdateNodeClaim(nc)
		}
	}

	results, err := w.prov.Schedule(w.ctx)
	verifrt.Assert(err == nil, "the scheduling pass completes")
	verifrt.Reach("pass")

	// what was put onto the existing capacity by this pass
	onExisting := resource.Quantity{}
	for i := 0; i < n; i++ {
		pl, cnt := pwFind(results, w.kc.Pods[len(w.kc.Pods)-n+i].UID)
		verifrt.Assert(cnt <= 1, "a pod is placed at most once")
		if pl.existing != "" {
			onExisting.Add(cpus[i])
		}
	}
	free := alloc.DeepCopy()
	free.Sub(bound)
	verifrt.Assert(onExisting.Cmp(free) <= 0 || onExisting.IsZero(), "pods placed on existing capacity fit next to what is already bound there")
	if marked {
		verifrt.Assert(onExisting.IsZero(), "a node marked for deletion is not counted as capacity")
	}
	for i := 0; i < n; i++ {
		pl, _ := pwFind(results, w.kc.Pods[len(w.kc.Pods)-n+i].UID)
		if pl.claim == nil {
			continue
		}
		verifrt.Reach("new-capacity")
		// the pod went to a new NodeClaim: it could not have been admitted by the existing capacity next to what
		// the pass had already assigned there
		need := onExisting.DeepCopy()
		need.Add(cpus[i])
		verifrt.Assert(marked || need.Cmp(free) > 0, "a plain pod is placed on a new NodeClaim only if the existing or in-flight capacity could not admit it")
	}
}
