//go:build verif

// verif:dir pkg/controllers/node/termination
//
// C09 (Node) — the termination finalizer of a managed Node that has a NodeClaim is removed only after the node is
// cordoned, every pod Karpenter can drain is gone, blocking volume attachments are gone or the termination grace
// period has expired, and the provider confirms the instance no longer exists — or at once when the node is not
// ready and the provider already reports the instance gone (DESIGN §7 C09).
//
// Up to 3 (quick) / 4 (thorough) consecutive reconciles of the real finalize body, the real Terminator and eviction
// queue, against the API-client and provider models with faults, and between reconciles an environment event
// (a pod finishes, a new pod is bound, a volume detaches). The assertion sits at the write that drops the finalizer.
//
// verif:assume C09: the clock is frozen inside a reconcile and advances 10 s between reconciles from a symbolic start; API write faults are injected in the thorough tier only, provider Delete faults always
// verif:assume C09: one node with at most one drainable pod and one volume attachment at a time; the node deadline, when set, is a whole second; instants between 1970 and 2043
// verif:assume C09: pod-level drain is checked by C10; here a pod leaves only through an environment event

package termination

import (
	"context"
	"time"

	corev1 "k8s.io/api/core/v1"
	storagev1 "k8s.io/api/storage/v1"
	metav1 "k8s.io/apimachinery/pkg/apis/meta/v1"
	"k8s.io/apimachinery/pkg/runtime/schema"
	"sigs.k8s.io/controller-runtime/pkg/client"

	v1 "sigs.k8s.io/karpenter/pkg/apis/v1"
	"sigs.k8s.io/karpenter/pkg/controllers/node/termination/terminator"
	"sigs.k8s.io/karpenter/pkg/verifrt"
	"sigs.k8s.io/karpenter/pkg/verifrt/stubs"
)

func nPod(name string) *corev1.Pod {
	p := &corev1.Pod{}
	p.Name, p.Namespace = name, "default"
	p.Spec.NodeName = "node-1"
	p.Status.Phase = corev1.PodRunning
	return p
}

func VerifC09_NodeFinalizer() {
	ctx := context.Background()
	// the clock is frozen inside a reconcile and advances by 10 s between reconciles from a symbolic start
	start := verifrt.Time("start")
	verifrt.Assume(start.After(time.Unix(1700000000, 0)))
	clk := &stubs.Clock{Frozen: true}
	clk.Set(start)
	kc := &stubs.Client{Clock: clk, Faults: map[string]bool{}}
	// quick: 3 reconciles, provider faults only. thorough: two configurations — 5 reconciles with provider faults only,
	// and 2 reconciles with node-patch and status-patch faults as well (their product exhausts the path budget)
	rounds, apiFaults := 3, false
	if verifrt.Bound("deepConfigs", 0, 1) == 1 {
		if verifrt.Choice("config", 0, 1) == 0 {
			rounds = 5
		} else {
			rounds, apiFaults = 2, true
		}
	}
	if apiFaults {
		kc.Faults["patch:Node"], kc.Faults["status-patch"] = true, true
	}
	cp := stubs.ManagedProvider()
	cp.Faults["delete"] = true
	const pid = "verif://i-1"
	cp.Instances[pid] = true
	rec := &stubs.Recorder{}
	queue := terminator.NewQueue(clk, kc, rec)
	term := terminator.NewTerminator(clk, kc, queue, rec)
	c := NewController(clk, kc, cp, term, rec)

	node := stubs.Node("node-1", pid, corev1.ConditionTrue)
	node.Labels[v1.NodeClassLabelKey(schema.GroupKind{Group: stubs.NodeClassGroup, Kind: stubs.NodeClassKind})] = "default"
	node.Finalizers = []string{v1.TerminationFinalizer}
	node.DeletionTimestamp = &metav1.Time{Time: time.Unix(1700000000, 0)}
	kc.Nodes = append(kc.Nodes, node)

	nc := stubs.NodeClaim("nc-1")
	nc.Finalizers = []string{v1.TerminationFinalizer}
	nc.Status.ProviderID, nc.Status.NodeName = pid, node.Name
	var deadline *time.Time
	if verifrt.Choice("deadline.set", 0, 1) == 1 {
		t := time.Unix(int64(verifrt.IntRange("deadline.unix", 1, 2000000000)), 0)
		deadline = &t
		nc.Annotations = map[string]string{v1.NodeClaimTerminationTimestampAnnotationKey: t.Format(time.RFC3339)}
	}
	// mid-termination start states (reachable by earlier reconciles): already drained once, instance already terminating
	if verifrt.Choice("start.drained", 0, 1) == 1 {
		stubs.SetCondition(nc, v1.ConditionTypeDrained, metav1.ConditionTrue, time.Unix(1700000000, 0))
	}
	if verifrt.Choice("start.terminating", 0, 1) == 1 {
		cp.Terminating[pid] = true
	}
	kc.Claims = append(kc.Claims, nc)
	if verifrt.Choice("pod.present", 0, 1) == 1 {
		kc.Pods = append(kc.Pods, nPod("pod-1"))
	}
	pv := "pv-1"
	if verifrt.Choice("volume.attached", 0, 1) == 1 {
		va := &storagev1.VolumeAttachment{}
		va.Name = "va-1"
		va.Spec.NodeName = node.Name
		va.Spec.Source.PersistentVolumeName = &pv
		kc.VAs = append(kc.VAs, va)
	}

	kc.OnWrite = func(verb string, obj client.Object) {
		n, isNode := obj.(*corev1.Node)
		if !isNode || stubs.HasFinalizer(n, v1.TerminationFinalizer) {
			return
		}
		verifrt.Reach("finalizer-removed")
		now, read := clk.Peek()
		stored := kc.StoredNode("node-1")
		gone := !cp.Instances[pid]
		tainted := false
		for _, t := range stored.Spec.Taints {
			tainted = tainted || t.Key == v1.DisruptedTaintKey
		}
		verifrt.Assert(tainted, "the finalizer is removed only after the node is cordoned")
		verifrt.Assert(len(kc.Pods) == 0, "the finalizer is removed only after every pod Karpenter can drain is gone")
		verifrt.Assert(len(kc.VAs) == 0 || (deadline != nil && read && now.After(*deadline)), "the finalizer is removed only after blocking volume attachments are gone or the termination grace period expired")
		verifrt.Assert(gone, "the finalizer is removed only after the provider confirms the instance no longer exists")
	}

	for r := 0; r < rounds; r++ {
		stored := kc.StoredNode("node-1")
		if stored == nil {
			return
		}
		_, _ = c.Reconcile(ctx, stored.DeepCopy())
		clk.Set(start.Add(time.Duration(r+1) * 10 * time.Second))
		if r == rounds-1 {
			break
		}
		// environment between reconciles
		switch verifrt.Choice("event", 0, 3) {
		case 1:
			kc.Pods = nil // the pod finished / was evicted
		case 2:
			if len(kc.Pods) == 0 {
				kc.Pods = append(kc.Pods, nPod("pod-late")) // a pod is bound before the scheduler saw the taint
				verifrt.Reach("late-pod")
			}
		case 3:
			kc.VAs = nil // the attach-detach controller detached the volume
		}
	}
}

// the fast path: a node that is not ready whose instance the provider already reports gone loses its finalizer at once;
// in every other case the first reconcile of a node with pods does not remove it
func VerifC09_NodeNotReadyFastPath() {
	ctx := context.Background()
	clk := &stubs.Clock{}
	kc := &stubs.Client{Clock: clk, Faults: map[string]bool{"patch:Node": true, "list": true, "delete:NodeClaim": true}}
	cp := stubs.ManagedProvider()
	cp.Faults["get"] = true
	const pid = "verif://i-1"
	exists := verifrt.Choice("instance.exists", 0, 1) == 1
	cp.Instances[pid] = exists
	rec := &stubs.Recorder{}
	c := NewController(clk, kc, cp, terminator.NewTerminator(clk, kc, terminator.NewQueue(clk, kc, rec), rec), rec)
	ready := verifrt.Choice("node.ready", 0, 1) == 1
	st := corev1.ConditionFalse
	if ready {
		st = corev1.ConditionTrue
	}
	node := stubs.Node("node-1", pid, st)
	node.Labels[v1.NodeClassLabelKey(schema.GroupKind{Group: stubs.NodeClassGroup, Kind: stubs.NodeClassKind})] = "default"
	node.Finalizers = []string{v1.TerminationFinalizer}
	node.DeletionTimestamp = &metav1.Time{Time: time.Unix(1700000000, 0)}
	kc.Nodes = append(kc.Nodes, node)
	nc := stubs.NodeClaim("nc-1")
	nc.Finalizers = []string{v1.TerminationFinalizer}
	nc.Status.ProviderID, nc.Status.NodeName = pid, node.Name
	kc.Claims = append(kc.Claims, nc)
	kc.Pods = append(kc.Pods, nPod("pod-1"))
	kc.OnWrite = func(verb string, obj client.Object) {
		if n, isNode := obj.(*corev1.Node); isNode && !stubs.HasFinalizer(n, v1.TerminationFinalizer) {
			verifrt.Assert(!ready && !exists, "with pods still on the node the finalizer goes at once only if the node is not ready and the provider reports the instance gone")
			verifrt.Reach("fast-path")
		}
	}
	_, _ = c.Reconcile(ctx, node.DeepCopy())
}
