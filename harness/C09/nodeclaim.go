//go:build verif

// verif:dir pkg/controllers/nodeclaim/lifecycle
//
// C09 (NodeClaim) — the NodeClaim's finalizer is removed only after its Nodes are gone (if it registered) and the
// provider reports the instance not found (if it was ever launched), so a completed deletion never orphans an instance.
//
// Up to 3 (quick) / 4 (thorough) consecutive reconciles of the real lifecycle controller (launch ... finalize) against
// the API-client and provider models: every NodeClaim write and provider call may fail; between reconciles a user may
// delete the NodeClaim or the node may register. "Ever launched" is ghost state of the provider model, not Status.ProviderID.
//
// verif:assume C09: the clock is frozen inside a reconcile and advances by 0..1 h between reconciles; one NodeClaim, one Node; no registration hooks; DRA ignored
// verif:assume C09: quick tier: writes fail with a generic error only and provider Create fails with a generic error only

package lifecycle

import (
	"context"

	corev1 "k8s.io/api/core/v1"
	metav1 "k8s.io/apimachinery/pkg/apis/meta/v1"
	"sigs.k8s.io/controller-runtime/pkg/client"

	v1 "sigs.k8s.io/karpenter/pkg/apis/v1"
	"sigs.k8s.io/karpenter/pkg/operator/options"
	"sigs.k8s.io/karpenter/pkg/state/nodepoolhealth"
	"sigs.k8s.io/karpenter/pkg/verifrt"
	"sigs.k8s.io/karpenter/pkg/verifrt/stubs"
)

type lcEnv struct {
	ctx  context.Context
	clk  *stubs.Clock
	kc   *stubs.Client
	cp   *stubs.Provider
	ctrl *Controller
}

func lcSetup() *lcEnv {
	e := &lcEnv{ctx: options.ToContext(context.Background(), &options.Options{IgnoreDRARequests: true})}
	// the clock is frozen inside a reconcile and advances by a symbolic amount between reconciles
	e.clk = &stubs.Clock{Frozen: true}
	e.clk.Set(verifrt.Time("start"))
	e.kc = &stubs.Client{Clock: e.clk, Faults: map[string]bool{"patch:NodeClaim": true, "status-patch:NodeClaim": true}}
	e.cp = stubs.ManagedProvider()
	e.cp.Faults["create"], e.cp.Faults["delete"] = true, true
	e.ctrl = NewController(e.clk, e.kc, e.cp, &stubs.Recorder{}, nodepoolhealth.NewState(), nil)
	nc := stubs.NodeClaim("nc-1")
	delete(nc.Labels, v1.NodePoolLabelKey) // standalone: the NodePool health bookkeeping is C20's subject
	created, _ := e.clk.Peek()
	nc.CreationTimestamp = metav1.Time{Time: created} // the API server stamps the creation time
	e.kc.Claims = append(e.kc.Claims, nc)
	return e
}

func (e *lcEnv) reconcile() {
	if stored := e.kc.StoredClaim("nc-1"); stored != nil {
		_, _ = e.ctrl.Reconcile(e.ctx, stored.DeepCopy())
	}
	now, _ := e.clk.Peek()
	e.clk.Set(now.Add(verifrt.Duration("elapsed", 0, 3600000000000)))
}

func lcCond(nc *v1.NodeClaim, typ string) bool {
	return nc != nil && nc.StatusConditions().Get(typ).IsTrue()
}

func (e *lcEnv) providerID() string {
	for id, ok := range e.cp.Instances {
		if ok {
			return id
		}
	}
	return ""
}

// C09 (NodeClaim half)
func VerifC09_NodeClaimFinalizer() {
	e := lcSetup()
	// quick: 3 reconciles, generic write/create errors. thorough: two configurations — 4 reconciles with generic errors,
	// and 3 reconciles with every fault kind (NotFound, Conflict, capacity errors); their product exhausts the path budget
	rounds, allKinds := 3, false
	if verifrt.Bound("deepConfigs", 0, 1) == 1 {
		if verifrt.Choice("config", 0, 1) == 0 {
			rounds = 4
		} else {
			allKinds = true
		}
	}
	if !allKinds {
		e.kc.FaultMax = stubs.FaultOther
		e.cp.CreateErrors = []int{stubs.CreateOther}
	} else {
		e.cp.CreateErrors = []int{stubs.CreateInsufficientCapacity, stubs.CreateOther, stubs.CreateWrappedInsufficientCapacity}
	}
	e.kc.OnWrite = func(verb string, obj client.Object) {
		nc, isClaim := obj.(*v1.NodeClaim)
		if !isClaim || stubs.HasFinalizer(nc, v1.TerminationFinalizer) || nc.DeletionTimestamp.IsZero() {
			return
		}
		verifrt.Reach("finalizer-removed")
		stored := e.kc.StoredClaim("nc-1")
		everLaunched := e.cp.Creates["nc-1"] > 0
		instanceAlive := false
		for _, alive := range e.cp.Instances {
			instanceAlive = instanceAlive || alive
		}
		// C09-F1: the instance was created but the status patch that records its provider id failed; finalize then skips the provider
		verifrt.KnownFinding("C09-F1", everLaunched && stored != nil && stored.Status.ProviderID == "")
		verifrt.Assert(!everLaunched || !instanceAlive, "the NodeClaim's finalizer is removed only after the provider reports the instance not found, if one was ever launched")
		if lcCond(stored, v1.ConditionTypeRegistered) {
			verifrt.Assert(len(e.kc.Nodes) == 0, "the NodeClaim's finalizer is removed only after its Nodes are gone, if it registered")
		}
	}
	// mid-life start state (reachable by earlier reconciles): launched and registered, instance and node exist
	if verifrt.Choice("start.registered", 0, 1) == 1 {
		nc := e.kc.StoredClaim("nc-1")
		nc.Finalizers = []string{v1.TerminationFinalizer}
		nc.Status.ProviderID = "verif://instance-0"
		nc.Status.NodeName = "node-1"
		start, _ := e.clk.Peek()
		stubs.SetCondition(nc, v1.ConditionTypeLaunched, metav1.ConditionTrue, start)
		stubs.SetCondition(nc, v1.ConditionTypeRegistered, metav1.ConditionTrue, start)
		e.cp.Instances[nc.Status.ProviderID] = true
		e.cp.Creates["nc-1"] = 1
		n := stubs.Node("node-1", nc.Status.ProviderID, corev1.ConditionTrue)
		n.Finalizers = []string{v1.TerminationFinalizer}
		delete(n.Labels, v1.NodePoolLabelKey)
		e.kc.Nodes = append(e.kc.Nodes, n)
		if verifrt.Choice("start.deleting", 0, 1) == 1 { // ... and already being deleted, its instance already terminating
			nc.DeletionTimestamp = &metav1.Time{Time: start}
			e.cp.Terminating[nc.Status.ProviderID] = true
		}
	}
	for r := 0; r < rounds; r++ {
		e.reconcile()
		if r == rounds-1 {
			break
		}
		stored := e.kc.StoredClaim("nc-1")
		switch verifrt.Choice("event", 0, 3) {
		case 3: // the node termination controller finished with a node that is being deleted
			if n := e.kc.StoredNode("node-1"); n != nil && !n.DeletionTimestamp.IsZero() {
				e.kc.Nodes = nil
				verifrt.Reach("node-finalized")
			}
		case 1: // a user (or a controller) deletes the NodeClaim
			if stored != nil && stored.DeletionTimestamp.IsZero() {
				if len(stored.Finalizers) == 0 {
					e.kc.Claims = nil
				} else {
					stored.DeletionTimestamp = &metav1.Time{Time: e.clk.Now()}
				}
				verifrt.Reach("user-delete")
			}
		case 2: // the node for the instance registers and becomes ready
			if id := e.providerID(); id != "" && e.kc.StoredNode("node-1") == nil {
				n := stubs.Node("node-1", id, corev1.ConditionTrue)
				n.Spec.Taints = []corev1.Taint{v1.UnregisteredNoExecuteTaint}
				delete(n.Labels, v1.NodePoolLabelKey)
				e.kc.Nodes = append(e.kc.Nodes, n)
			}
		}
	}
}
