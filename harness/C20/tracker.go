//go:build verif

// verif:dir pkg/state/nodepoolhealth
//
// C20 — NodePool registration health reflects the recent launch window.
//
// States are built through the public API only: k1 Update calls with symbolic
// outcomes, optionally a Reset/SetStatus, then k2 more. k <= 2*BufferSize reaches
// every representation state of the ring buffer (len 0..cap with head 0; full
// with every head position, twice), both from the fresh state and from a state
// emptied after wrap-around, so one more operation from each of these states
// covers histories of any length (DESIGN §7 C20, Appendix D).
//
// verif:assume C20: the window size is nodepoolhealth.BufferSize as read from the source; the NodePool status patch in the registration/liveness controllers is outside this check

package nodepoolhealth

import (
	"k8s.io/apimachinery/pkg/types"

	"sigs.k8s.io/karpenter/pkg/verifrt"
)

const verifUID = types.UID("np-1")

// verifHistory drives s through an arbitrary public history — k1 updates, then
// optionally a Reset or SetStatus, then k2 updates — and returns the logical
// window (oldest..newest, at most BufferSize outcomes) as ghost state together
// with the number of inserts since the buffer was last emptied.
func verifHistory(s *State) (window []bool, inserts int) {
	k1 := verifrt.Choice("updates1", 0, 2*BufferSize)
	for i := 0; i < k1; i++ {
		b := verifrt.Bool("outcome")
		s.Update(verifUID, b)
		window = verifPush(window, b)
	}
	inserts = k1
	preset := verifrt.Choice("preset", 0, 4)
	switch preset {
	case 1:
		s.SetStatus(verifUID, StatusUnknown)
		window = nil
	case 2:
		s.SetStatus(verifUID, StatusHealthy)
		window = []bool{true}
	case 3:
		s.SetStatus(verifUID, StatusUnhealthy)
		window = nil
		for i := 0; i < int(BufferSize*ThresholdFalse); i++ {
			window = append(window, false)
		}
	case 4:
		s.nodePoolNodeRegistration(verifUID).Reset()
		window = nil
	}
	if preset != 0 {
		inserts = len(window) // Reset/SetStatus empty the buffer; SetStatus then inserts these outcomes itself
		if k1 > BufferSize {
			verifrt.Reach("reset-after-wrap")
		}
	}
	k2 := 0
	if preset != 0 {
		k2 = verifrt.Choice("updates2", 0, 2*BufferSize)
	}
	for i := 0; i < k2; i++ {
		b := verifrt.Bool("outcome")
		s.Update(verifUID, b)
		window = verifPush(window, b)
	}
	inserts += k2
	if len(window) == BufferSize {
		verifrt.Reach("window-full")
	}
	return window, inserts
}

func verifPush(window []bool, b bool) []bool {
	window = append(window, b)
	if len(window) > BufferSize {
		window = window[1:]
	}
	return window
}

func verifFailures(window []bool) int {
	n := 0
	for _, b := range window {
		if !b {
			n++
		}
	}
	return n
}

// oracle, from the statement: Unknown with no data, else False (Unhealthy) iff
// failures fill at least half of the BufferSize-wide window.
func verifOracle(window []bool) (unknown, unhealthy bool) {
	if len(window) == 0 {
		return true, false
	}
	return false, 2*verifFailures(window) >= BufferSize
}

func VerifC20_RecordThreshold() {
	s := NewState()
	window, _ := verifHistory(s)
	b := verifrt.Bool("recorded")
	s.Update(verifUID, b)
	window = verifPush(window, b)
	_, unhealthy := verifOracle(window)
	st := s.Status(verifUID)
	verifrt.Observe("status", int(st))
	verifrt.Assert(st != StatusUnknown, "a recorded outcome never leaves the status unknown")
	verifrt.Assert((st == StatusUnhealthy) == unhealthy, "Unhealthy exactly when failures fill at least half of the window")
	verifrt.Assert((st == StatusHealthy) == !unhealthy, "Healthy exactly when failures fill less than half of the window")
}

func VerifC20_DryRunAgrees() {
	s := NewState()
	window, inserts := verifHistory(s)
	// C20-F1: the what-if copy loses the ring order once the buffer has wrapped to a non-zero head
	verifrt.KnownFinding("C20-F1", inserts > BufferSize && (inserts-BufferSize)%BufferSize != 0)
	b := verifrt.Bool("next")
	before := s.Status(verifUID)
	dry := s.DryRun(verifUID, b).Status()
	verifrt.Assert(s.Status(verifUID) == before, "a what-if evaluation does not change the recorded state")
	s.Update(verifUID, b)
	window = verifPush(window, b)
	after := s.Status(verifUID)
	verifrt.Observe("dry", int(dry))
	verifrt.Observe("after", int(after))
	_, unhealthy := verifOracle(window)
	verifrt.Assert((after == StatusUnhealthy) == unhealthy, "the what-if evaluation left the tracker's window intact")
	verifrt.Assert(dry == after, "what-if evaluation of the next outcome agrees with the state after recording it")
}

func VerifC20_SetStatusAndReset() {
	s := NewState()
	window, _ := verifHistory(s)
	unknown, unhealthy := verifOracle(window)
	st := s.Status(verifUID)
	verifrt.Assert((st == StatusUnknown) == unknown, "Unknown exactly when no outcome is recorded")
	verifrt.Assert(unknown || (st == StatusUnhealthy) == unhealthy, "status follows the window after SetStatus and updates")
	// Reset (through the tracker) forgets everything
	s.nodePoolNodeRegistration(verifUID).Reset()
	verifrt.Assert(s.Status(verifUID) == StatusUnknown, "Reset forgets the window")
	target := Status(verifrt.Choice("target", int(StatusUnknown), int(StatusUnhealthy)))
	s.SetStatus(verifUID, target)
	verifrt.Assert(s.Status(verifUID) == target, "SetStatus(s) is observed by Status()")
	// a restart is a fresh State
	verifrt.Assert(NewState().Status(verifUID) == StatusUnknown, "a fresh state reports Unknown")
}
