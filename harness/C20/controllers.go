//go:build verif

// verif:dir pkg/controllers/nodeclaim/lifecycle
//
// C20 (the controllers that feed the window) — launch outcomes are reported by the real lifecycle sub-controllers: a
// registration timeout goes through Liveness.Reconcile, a successful registration through
// Registration.updateNodePoolRegistrationHealth; both share one nodepoolhealth.State. After every outcome of a history
// the NodePool's NodeRegistrationHealthy condition equals what the four most recent outcomes dictate: False once at
// least two of them failed, True again after a success that brings the failures below two, unchanged otherwise.
//
// verif:assume C20: one NodePool, histories of 7 (8) outcomes, each a success or a registration timeout of a fresh NodeClaim owned by the NodePool; the NodePool status patch never fails

package lifecycle

import (
	"context"
	"strconv"
	"time"

	metav1 "k8s.io/apimachinery/pkg/apis/meta/v1"
	k8stypes "k8s.io/apimachinery/pkg/types"

	v1 "sigs.k8s.io/karpenter/pkg/apis/v1"
	"sigs.k8s.io/karpenter/pkg/state/nodepoolhealth"
	"sigs.k8s.io/karpenter/pkg/verifrt"
	"sigs.k8s.io/karpenter/pkg/verifrt/stubs"
)

func VerifC20_ControllersFeedTheWindow() {
	ctx := context.Background()
	now := time.Unix(1700000000, 0)
	clk := &stubs.Clock{Frozen: true}
	clk.Set(now)
	kc := &stubs.Client{Clock: clk}
	pool := &v1.NodePool{}
	pool.Name, pool.UID = "pool-1", "uid-pool-1"
	pool.Spec.Template.Spec.NodeClassRef = &v1.NodeClassReference{Group: stubs.NodeClassGroup, Kind: stubs.NodeClassKind, Name: "default"}
	kc.Pools = append(kc.Pools, pool)
	npState := nodepoolhealth.NewState()
	live := &Liveness{clock: clk, kubeClient: kc, npState: npState}
	reg := &Registration{clock: clk, kubeClient: kc, npState: npState, recorder: &stubs.Recorder{}}

	// NodeRegistrationHealthy as stored in the API: 0 unknown/absent, 1 true, 2 false
	cond := func() int {
		c := kc.Pools[0].StatusConditions().Get(v1.ConditionTypeNodeRegistrationHealthy)
		switch {
		case c == nil || c.IsUnknown():
			return 0
		case c.IsTrue():
			return 1
		}
		return 2
	}
	var outcomes []bool
	steps := verifrt.Bound("history", 7, 8)
	for i := 0; i < steps; i++ {
		success := verifrt.Choice("outcome-"+strconv.Itoa(i), 0, 1) == 1
		nc := stubs.NodeClaim("claim-" + strconv.Itoa(i))
		nc.UID = k8stypes.UID("uid-claim-" + strconv.Itoa(i))
		nc.OwnerReferences = []metav1.OwnerReference{{APIVersion: "karpenter.sh/v1", Kind: "NodePool", Name: pool.Name, UID: pool.UID}}
		nc.CreationTimestamp = metav1.Time{Time: now.Add(-time.Hour)}
		stubs.SetCondition(nc, v1.ConditionTypeLaunched, metav1.ConditionTrue, now.Add(-time.Hour))
		stubs.SetCondition(nc, v1.ConditionTypeRegistered, metav1.ConditionUnknown, now.Add(-time.Hour))
		kc.Claims = append(kc.Claims, nc)
		before := cond()
		if success {
			verifrt.Assert(reg.updateNodePoolRegistrationHealth(ctx, nc) == nil, "the registration controller records the success")
		} else {
			// Registered has been Unknown for longer than the registration timeout
			_, err := live.Reconcile(ctx, nc)
			verifrt.Assert(err == nil, "the liveness controller reconciles the timeout")
		}
		outcomes = append(outcomes, success)
		failures := 0
		for k := len(outcomes) - 1; k >= 0 && k >= len(outcomes)-4; k-- {
			if !outcomes[k] {
				failures++
			}
		}
		want := before
		switch {
		case failures >= 2:
			want = 2
		case success:
			want = 1
		}
		verifrt.Assert(cond() == want, "NodeRegistrationHealthy reflects the four most recent launch outcomes reported by the lifecycle controllers")
	}
	verifrt.Reach("history-complete")
}
