//go:build verif

// verif:dir pkg/controllers/state
//
// C11 — after any sequence of Node, NodeClaim and Pod changes delivered in any order (stale deliveries,
// deletions, pods recreated under the same name), once the latest version of every object has been observed the
// in-memory cluster state equals what is computed from the API objects from scratch: per-node requested
// resources, daemonset requests, host ports, disruption cost, per-NodePool totals and node counts, deletion marks
// (DESIGN §7 C11).
//
// A ghost API store (one NodeClaim, one Node, up to two pods with symbolic requests); a symbolic event sequence;
// then every object's latest version is delivered once and every exported accessor is compared with a fresh
// Cluster fed the final store.
//
// verif:assume C11: histories of up to 3 (quick) / 4 (thorough) events over one NodeClaim, one Node and two pod names (one of them a DaemonSet pod; a recreated pod keeps its owner kind); pod cpu requests 0..1000 whole units; DaemonSet cache, volume usage (no PVCs) and pod scheduling-time maps are outside
// verif:pure ^sigs\.k8s\.io/karpenter/pkg/controllers/state\.cEqualLists$

package state

import (
	"context"
	"strconv"
	"time"

	corev1 "k8s.io/api/core/v1"
	metav1 "k8s.io/apimachinery/pkg/apis/meta/v1"
	"k8s.io/apimachinery/pkg/types"
	"sigs.k8s.io/controller-runtime/pkg/client"

	v1 "sigs.k8s.io/karpenter/pkg/apis/v1"
	"sigs.k8s.io/karpenter/pkg/scheduling"
	"sigs.k8s.io/karpenter/pkg/verifrt"
	"sigs.k8s.io/karpenter/pkg/verifrt/stubs"
)

const cPID = "verif://i-1"

func cMakePod(name string, gen int) *corev1.Pod {
	p := &corev1.Pod{}
	p.Name, p.Namespace = name, "default"
	p.UID = types.UID(name + "-" + strconv.Itoa(gen)) // recreated pods get a new UID under the same name
	p.Spec.NodeName = "node-1"
	p.Status.Phase = corev1.PodRunning
	c := corev1.Container{Name: "main"}
	c.Resources.Requests = corev1.ResourceList{corev1.ResourceCPU: verifrt.Quantity("pod.cpu", 0, 1000)}
	// a name keeps its owner kind across recreation: pod-1 is always a DaemonSet pod, pod-0 never is
	if name == "pod-1" {
		p.OwnerReferences = []metav1.OwnerReference{{APIVersion: "apps/v1", Kind: "DaemonSet", Name: "ds"}}
	}
	switch verifrt.Choice("pod.shape", 0, 2) {
	case 1:
		p.Annotations = map[string]string{corev1.PodDeletionCost: "100000000"}
	case 2:
		c.Ports = []corev1.ContainerPort{{HostPort: 8080, ContainerPort: 8080, Protocol: corev1.ProtocolTCP}}
	}
	p.Spec.Containers = []corev1.Container{c}
	return p
}

func cEqualLists(a, b corev1.ResourceList) bool {
	for k, v := range a {
		w := b[k]
		if v.Cmp(w) != 0 {
			return false
		}
	}
	for k, v := range b {
		w := a[k]
		if v.Cmp(w) != 0 {
			return false
		}
	}
	return true
}

func cFind(c *Cluster) *StateNode {
	for n := range c.Nodes() {
		if n.ProviderID() == cPID {
			return n
		}
	}
	return nil
}

func VerifC11_Converges() {
	ctx := context.Background()
	clk := &stubs.Clock{Frozen: true}
	clk.Set(time.Unix(1700000000, 0))
	kc := &stubs.Client{Clock: clk}
	cp := stubs.ManagedProvider()
	cluster := NewCluster(clk, kc, cp)

	nc := stubs.NodeClaim("nc-1")
	nc.Status.ProviderID = cPID
	nc.Status.Capacity = corev1.ResourceList{corev1.ResourceCPU: verifrt.Quantity("capacity.cpu", 0, 1000)}
	node := stubs.Node("node-1", cPID, corev1.ConditionTrue)
	node.Labels = map[string]string{corev1.LabelInstanceTypeStable: "it-1", v1.NodePoolLabelKey: "pool-1", v1.NodeRegisteredLabelKey: "true", v1.NodeInitializedLabelKey: "true"}
	node.Status.Capacity = nc.Status.Capacity
	// the API store
	var storeNC *v1.NodeClaim
	var storeNode *corev1.Node
	pods := map[string]*corev1.Pod{}
	gen := 0
	retry := map[string]bool{} // pods whose last delivery failed and is retried by the informer
	ncUpdatedAfterPod := false // C11-F1 signature: a NodeClaim delivery after a costed pod was tracked
	costedPodTracked := false

	steps := verifrt.Bound("history", 3, 4)
	for s := 0; s < steps; s++ {
		switch verifrt.Choice("event", 0, 6) {
		case 6: // the NodeClaim is gone from the API and the deletion is delivered (its Node may still be there)
			if storeNC != nil {
				storeNC = nil
				cluster.DeleteNodeClaim(nc.Name)
				verifrt.Reach("nodeclaim-deleted")
			}
		case 0: // NodeClaim appears / is delivered (again), possibly already being deleted
			if verifrt.Choice("nodeclaim.deleting", 0, 1) == 1 {
				nc.Finalizers = []string{v1.TerminationFinalizer}
				nc.DeletionTimestamp = &metav1.Time{Time: time.Unix(1700000000, 0)}
			}
			storeNC = nc
			cluster.UpdateNodeClaim(nc.DeepCopy())
			if costedPodTracked {
				ncUpdatedAfterPod = true
			}
			if storeNode != nil {
				verifrt.Reach("nodeclaim-delivered-after-node")
			}
		case 1: // Node appears / is delivered (again)
			storeNode = node
			kc.Nodes = []*corev1.Node{node}
			verifrt.Assert(cluster.UpdateNode(ctx, node.DeepCopy()) == nil, "node delivery succeeds")
		case 2, 3: // a pod is created (or recreated under the same name) and delivered
			name := "pod-" + strconv.Itoa(verifrt.Choice("pod", 0, 1))
			gen++
			p := cMakePod(name, gen)
			pods[name] = p
			kc.Pods = nil
			for _, x := range pods {
				kc.Pods = append(kc.Pods, x)
			}
			retry[name] = cluster.UpdatePod(ctx, p.DeepCopy()) != nil // an error (node not tracked yet) makes the informer retry later
			if storeNode != nil && len(p.OwnerReferences) == 0 {
				costedPodTracked = true
			}
		case 4: // a pod is deleted and the deletion delivered
			name := "pod-" + strconv.Itoa(verifrt.Choice("pod", 0, 1))
			delete(pods, name)
			delete(retry, name)
			kc.Pods = nil
			for _, x := range pods {
				kc.Pods = append(kc.Pods, x)
			}
			cluster.DeletePod(types.NamespacedName{Namespace: "default", Name: name})
		case 5: // the node is marked for deletion by a disruption action, or unmarked after a failed one
			if verifrt.Choice("mark", 0, 1) == 1 {
				cluster.MarkForDeletion(cPID)
			} else {
				cluster.UnmarkForDeletion(cPID)
			}
		}
	}
	// quiescence: every event above delivered the latest version of its object at once, so every object has been
	// observed; only deliveries that failed are retried (level-triggered reconciliation)
	for name, p := range pods {
		if retry[name] {
			err := cluster.UpdatePod(ctx, p.DeepCopy())
			verifrt.Assert((err == nil) == (storeNode != nil), "a retried pod delivery succeeds exactly when its node is known")
		}
	}
	// recomputation from scratch
	fresh := NewCluster(clk, kc, cp)
	if storeNC != nil {
		fresh.UpdateNodeClaim(storeNC.DeepCopy())
	}
	if storeNode != nil {
		verifrt.Assert(fresh.UpdateNode(ctx, storeNode.DeepCopy()) == nil, "node delivery succeeds")
	}
	for _, p := range pods {
		_ = fresh.UpdatePod(ctx, p.DeepCopy())
	}
	a, b := cFind(cluster), cFind(fresh)
	verifrt.Assert((a == nil) == (b == nil), "the node is tracked exactly when a fresh computation tracks it")
	if a == nil {
		return
	}
	verifrt.Reach("node-tracked")
	// C11-F1: newStateFromNodeClaim does not carry the per-pod disruption costs over to the new StateNode
	verifrt.KnownFinding("C11-F1", ncUpdatedAfterPod && storeNode != nil)
	verifrt.Assert(cEqualLists(a.PodRequests(), b.PodRequests()), "requested resources per node equal a fresh recomputation")
	verifrt.Assert(cEqualLists(a.DaemonSetRequests(), b.DaemonSetRequests()), "daemonset requests per node equal a fresh recomputation")
	verifrt.Assert(cEqualLists(a.Capacity(), b.Capacity()), "capacity equals a fresh recomputation")
	verifrt.Assert(a.DisruptionCost() == b.DisruptionCost(), "disruption cost equals a fresh recomputation")
	probe := &corev1.Pod{}
	probe.Name, probe.Namespace = "probe", "default"
	ports := []scheduling.HostPort{{IP: nil, Port: 8080, Protocol: corev1.ProtocolTCP}}
	verifrt.Assert((a.HostPortUsage().Conflicts(probe, ports) == nil) == (b.HostPortUsage().Conflicts(probe, ports) == nil), "host port usage equals a fresh recomputation")
	// deletion marks are not API state: they must survive deliveries, and totals must follow them
	if !a.MarkedForDeletion() {
		verifrt.Assert(cEqualLists(cluster.NodePoolResourcesFor("pool-1"), fresh.NodePoolResourcesFor("pool-1")), "NodePool resource totals equal a fresh recomputation")
		ga, gd, gp := cluster.NodePoolState.GetNodeCount("pool-1")
		fa, fd, fp := fresh.NodePoolState.GetNodeCount("pool-1")
		verifrt.Assert(ga == fa && gd == fd && gp == fp, "NodePool node counts equal a fresh recomputation")
	}
	if len(pods) > 0 {
		verifrt.Reach("pods-bound")
	}
	_ = client.ObjectKey{}
}
