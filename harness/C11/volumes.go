//go:build verif

// verif:dir pkg/scheduling
//
// C11 (volume usage component) — the per-node volume usage that the cluster state keeps incrementally
// (VolumeUsage.Add on pod binding, VolumeUsage.DeletePod on pod removal) answers ExceedsLimits exactly like a usage
// recomputed from scratch from the pods that are still there — also when pods share a PersistentVolumeClaim.
//
// verif:assume C11: 2 (3) pods whose volume sets are subsets of {driver-a/pvc-1, driver-a/pvc-2} (the first pod may also mount driver-b/pvc-3; pod volumes are immutable, so a pod name always comes with the same set), histories of 3 add/delete operations, a symbolic per-driver limit 0..3, probes of no, a new, and an already mounted volume

package scheduling

import (
	"strconv"

	corev1 "k8s.io/api/core/v1"
	"k8s.io/apimachinery/pkg/types"

	"sigs.k8s.io/karpenter/pkg/verifrt"
)

func VerifC11_VolumeUsageMatchesFresh() {
	all := [][2]string{{"driver-a", "default/pvc-1"}, {"driver-a", "default/pvc-2"}, {"driver-b", "default/pvc-3"}}
	mkVolumes := func(mask int) Volumes {
		v := Volumes{}
		for k, dv := range all {
			if mask&(1<<k) != 0 {
				v.Add(dv[0], dv[1])
			}
		}
		return v
	}
	var pods []*corev1.Pod
	var masks []int
	nPods := verifrt.Bound("pods", 2, 3)
	for i := 0; i < nPods; i++ {
		p := &corev1.Pod{}
		p.Name, p.Namespace = "pod-"+strconv.Itoa(i), "default"
		pods = append(pods, p)
		// subsets of the two driver-a claims; the first pod may also mount the driver-b claim
		max := 3
		if i == 0 {
			max = 7
		}
		masks = append(masks, verifrt.Choice("pod-"+strconv.Itoa(i)+".volumes", 0, max))
	}
	limitA, limitB := verifrt.IntRange("limit.driver-a", 0, 3), verifrt.IntRange("limit.driver-b", 0, 3)
	vu := NewVolumeUsage()
	vu.AddLimit("driver-a", limitA)
	vu.AddLimit("driver-b", limitB)
	present := map[int]bool{}
	steps := 3
	for s := 0; s < steps; s++ {
		i := verifrt.Choice("op-"+strconv.Itoa(s)+".pod", 0, nPods-1)
		if verifrt.Choice("op-"+strconv.Itoa(s)+".delete", 0, 1) == 1 {
			vu.DeletePod(types.NamespacedName{Namespace: "default", Name: pods[i].Name})
			delete(present, i)
		} else {
			vu.Add(pods[i], mkVolumes(masks[i]))
			present[i] = true
		}
	}
	fresh := NewVolumeUsage()
	fresh.AddLimit("driver-a", limitA)
	fresh.AddLimit("driver-b", limitB)
	for i := 0; i < nPods; i++ {
		if present[i] {
			fresh.Add(pods[i], mkVolumes(masks[i]))
		}
	}
	probes := []Volumes{{}, mkVolumes(1), mkVolumes(4)}
	extra := Volumes{}
	extra.Add("driver-a", "default/pvc-new")
	probes = append(probes, extra)
	same := true
	for _, pr := range probes {
		a, b := vu.ExceedsLimits(pr) == nil, fresh.ExceedsLimits(pr) == nil
		same = same && a == b
	}
	verifrt.Assert(same, "incrementally kept volume usage answers the limit question like a usage recomputed from the remaining pods")
	if len(present) > 0 {
		verifrt.Reach("pods-remain")
	}
}
