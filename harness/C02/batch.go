//go:build verif

// verif:dir pkg/controllers/provisioning/scheduling
//
// C02 (two placements through the real Topology) — the placements of one pass never violate a required pod
// anti-affinity term in either direction (the pod that carries the term and the pod the term is directed
// against, whichever is placed first), never exceed maxSkew among the pods that carry a DoNotSchedule spread
// constraint, and when the first node's zone is still undetermined the guarantee holds for every zone it could
// end up in (DESIGN §7 C02-2/4). Built with the real NewTopology / AddRequirements / Record.
//
// verif:assume C02: two pods placed in either order onto nodes whose zone requirement is a non-empty subset of two zones; one NodePool with one instance type offering both zones; no pods already running; namespaces: default only
// verif:nondeterministic the scheduler breaks ties between equally good domains, NodeClaims and instance types by Go map iteration order; a native run may take another admissible behaviour than the symbolic path
// verif:assume sample comparison against the real build is restricted to the verdict for these harnesses: the real code breaks ties by randomised map iteration order, the engine iterates in insertion order; violations are always confirmed natively

package scheduling

import (
	"context"
	"time"

	corev1 "k8s.io/api/core/v1"
	metav1 "k8s.io/apimachinery/pkg/apis/meta/v1"
	"k8s.io/apimachinery/pkg/types"

	v1 "sigs.k8s.io/karpenter/pkg/apis/v1"
	"sigs.k8s.io/karpenter/pkg/cloudprovider"
	"sigs.k8s.io/karpenter/pkg/controllers/state"
	opopts "sigs.k8s.io/karpenter/pkg/operator/options"
	"sigs.k8s.io/karpenter/pkg/scheduling"
	"sigs.k8s.io/karpenter/pkg/verifrt"
	"sigs.k8s.io/karpenter/pkg/verifrt/stubs"
)

func hPod(name, app string) *corev1.Pod {
	p := &corev1.Pod{}
	p.Name, p.Namespace = name, "default"
	p.UID = types.UID("uid-" + name)
	p.Labels = map[string]string{"app": app}
	return p
}

func hZones(label string) []string {
	switch verifrt.Choice(label, 0, 2) {
	case 0:
		return []string{"zone-1"}
	case 1:
		return []string{"zone-2"}
	}
	return []string{"zone-1", "zone-2"}
}

// hPlace runs what CanAdd/Add do for topology: tighten the node's requirements for the pod, then record the placement.
// It returns the zones the node may still end up in (nil: the pod was refused).
func hPlace(t *Topology, p *corev1.Pod, host string, zones []string) []string {
	nodeReqs := scheduling.NewRequirements(
		scheduling.NewRequirement(corev1.LabelTopologyZone, corev1.NodeSelectorOpIn, zones...),
		scheduling.NewRequirement(corev1.LabelHostname, corev1.NodeSelectorOpIn, host),
	)
	podReqs := scheduling.NewStrictPodRequirements(p)
	tightened, err := t.AddRequirements(p, nil, podReqs, nodeReqs, scheduling.AllowUndefinedWellKnownLabels)
	if err != nil {
		return nil
	}
	if nodeReqs.Compatible(tightened, scheduling.AllowUndefinedWellKnownLabels) != nil {
		return nil
	}
	nodeReqs.Add(tightened.Values()...)
	t.Register(corev1.LabelHostname, host)
	t.Record(p, nil, nodeReqs, scheduling.AllowUndefinedWellKnownLabels)
	return nodeReqs.Get(corev1.LabelTopologyZone).Values()
}

func hSetup(pods ...*corev1.Pod) *Topology {
	ctx := opopts.ToContext(context.Background(), &opopts.Options{})
	clk := &stubs.Clock{Frozen: true}
	clk.Set(time.Unix(1700000000, 0))
	kc := &stubs.Client{Clock: clk}
	cluster := state.NewCluster(clk, kc, stubs.ManagedProvider())
	pool := &v1.NodePool{}
	pool.Name = "pool-1"
	it := &cloudprovider.InstanceType{Name: "it-1", Requirements: scheduling.NewRequirements(
		scheduling.NewRequirement(corev1.LabelTopologyZone, corev1.NodeSelectorOpIn, "zone-1", "zone-2"))}
	t, err := NewTopology(ctx, kc, cluster, nil, []*v1.NodePool{pool}, map[string][]*cloudprovider.InstanceType{"pool-1": {it}}, pods)
	verifrt.Assert(err == nil && t != nil, "topology is built")
	return t
}

func hOverlap(a, b []string) bool {
	for _, x := range a {
		for _, y := range b {
			if x == y {
				return true
			}
		}
	}
	return false
}

// required anti-affinity of a against pods labelled app=b, zone-wide; a and b placed in either order
func VerifC02_AntiAffinityBothDirections() {
	a, b := hPod("pod-a", "a"), hPod("pod-b", "b")
	if verifrt.Choice("selfAntiAffinity", 0, 1) == 1 {
		b.Labels["app"] = "a" // both pods match the term (a deployment with self anti-affinity); b carries it too
	}
	term := corev1.PodAffinityTerm{TopologyKey: corev1.LabelTopologyZone, LabelSelector: &metav1.LabelSelector{MatchLabels: map[string]string{"app": b.Labels["app"]}}}
	a.Spec.Affinity = &corev1.Affinity{PodAntiAffinity: &corev1.PodAntiAffinity{RequiredDuringSchedulingIgnoredDuringExecution: []corev1.PodAffinityTerm{term}}}
	if b.Labels["app"] == "a" {
		b.Spec.Affinity = a.Spec.Affinity.DeepCopy()
	}
	t := hSetup(a, b)
	first, second := a, b
	if verifrt.Choice("carrierFirst", 0, 1) == 0 {
		first, second = b, a
	}
	z1 := hPlace(t, first, "host-1", hZones("firstNode.zones"))
	if z1 == nil {
		return
	}
	z2 := hPlace(t, second, "host-2", hZones("secondNode.zones"))
	if z2 == nil {
		verifrt.Reach("second-refused")
		return
	}
	verifrt.Reach("both-placed")
	verifrt.Assert(!hOverlap(z1, z2), "a pod and a pod its required anti-affinity term is directed against never share a zone, for every zone either node could end up in, whichever is placed first")
}

// DoNotSchedule zone spread with maxSkew 1 over two pods of one deployment: they cannot end in the same zone
// while the other zone is empty and usable
func VerifC02_SpreadTwoPods() {
	a, b := hPod("pod-a", "web"), hPod("pod-b", "web")
	tsc := corev1.TopologySpreadConstraint{MaxSkew: 1, TopologyKey: corev1.LabelTopologyZone, WhenUnsatisfiable: corev1.DoNotSchedule,
		LabelSelector: &metav1.LabelSelector{MatchLabels: map[string]string{"app": "web"}}}
	a.Spec.TopologySpreadConstraints = []corev1.TopologySpreadConstraint{tsc}
	b.Spec.TopologySpreadConstraints = []corev1.TopologySpreadConstraint{tsc}
	c := hPod("pod-c", "web")
	c.Spec.TopologySpreadConstraints = []corev1.TopologySpreadConstraint{tsc}
	t := hSetup(a, b, c)
	z1 := hPlace(t, a, "host-1", hZones("firstNode.zones"))
	z2 := hPlace(t, b, "host-2", hZones("secondNode.zones"))
	z3 := hPlace(t, c, "host-3", hZones("thirdNode.zones"))
	count := map[string]int{}
	for _, zs := range [][]string{z1, z2, z3} {
		if zs != nil {
			verifrt.Assert(len(zs) == 1, "a spread constraint pins each placement to one zone")
			count[zs[0]]++
		}
	}
	d := count["zone-1"] - count["zone-2"]
	verifrt.Assert(d >= -1 && d <= 1, "maxSkew of a DoNotSchedule spread constraint is never exceeded among the pods that carry it")
	if z1 != nil && z2 != nil && z3 != nil {
		verifrt.Reach("three-placed")
	}
}
