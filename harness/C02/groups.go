//go:build verif

// verif:dir pkg/controllers/provisioning/scheduling
//
// C02 (one step per topology group) — a domain chosen for a pod under a DoNotSchedule spread constraint keeps
// 'matching pods in the domain + self - global minimum <= maxSkew'; a domain offered to a pod with a required
// anti-affinity term (or to a pod such a term is directed against) holds no matching pod; a domain offered to a
// pod with a required affinity term holds a matching pod, unless the pod matches its own term and no matching pod
// exists in any domain it can use (DESIGN §7 C02-1..3). The group state is arbitrary: symbolic per-domain counts.
//
// verif:assume C02: 3 registered zone domains with counts 0..1000 (empty-domain index consistent with the counts), maxSkew 1..5, minDomains unset or 1..4; map iteration in insertion order (quick) — the assertions do not depend on which of several valid minimal domains is returned
// verif:pure ^sigs\.k8s\.io/karpenter/pkg/controllers/provisioning/scheduling\.(gMin|gAllowed)$

package scheduling

import (
	corev1 "k8s.io/api/core/v1"
	"k8s.io/apimachinery/pkg/labels"
	"k8s.io/apimachinery/pkg/types"
	"k8s.io/apimachinery/pkg/util/sets"

	"sigs.k8s.io/karpenter/pkg/scheduling"
	"sigs.k8s.io/karpenter/pkg/verifrt"
)

var gZones = []string{"zone-1", "zone-2", "zone-3"}

type gState struct {
	tg     *TopologyGroup
	counts map[string]int32
	self   bool
}

func gGroup(typ TopologyType) *gState {
	g := &gState{counts: map[string]int32{}}
	g.self = verifrt.Choice("selfSelecting", 0, 1) == 1
	sel := labels.Nothing()
	if g.self {
		sel = labels.Everything()
	}
	tg := &TopologyGroup{Type: typ, Key: corev1.LabelTopologyZone, namespaces: sets.New("default"), selector: sel,
		owners: map[types.UID]struct{}{}, domains: map[string]int32{}, emptyDomains: sets.New[string]()}
	for _, z := range gZones {
		if verifrt.Choice(z+".populated", 0, 1) == 1 {
			c := int32(verifrt.IntRange(z+".count", 1, 1000))
			tg.domains[z], g.counts[z] = c, c
		} else {
			tg.domains[z], g.counts[z] = 0, 0
			tg.emptyDomains.Insert(z)
		}
	}
	g.tg = tg
	return g
}

// gDomains draws a pod-side or node-side domain requirement: Exists, or In a non-empty subset of the zones.
func gDomains(label string) *scheduling.Requirement {
	mask := verifrt.Choice(label, 0, 7)
	if mask == 0 {
		return scheduling.NewRequirement(corev1.LabelTopologyZone, corev1.NodeSelectorOpExists)
	}
	var vals []string
	for i, z := range gZones {
		if mask&(1<<i) != 0 {
			vals = append(vals, z)
		}
	}
	return scheduling.NewRequirement(corev1.LabelTopologyZone, corev1.NodeSelectorOpIn, vals...)
}

func gPod() *corev1.Pod {
	p := &corev1.Pod{}
	p.Name, p.Namespace, p.UID = "pod-1", "default", "uid-pod-1"
	p.Labels = map[string]string{"app": "web"}
	return p
}

// gMin: the global minimum of the spread rule — over the domains the pod's own constraints admit, 0 when there are fewer than minDomains of them.
func gMin(counts map[string]int32, podDomains *scheduling.Requirement, minDomains *int32) int32 {
	min := int32(1 << 30)
	n := int32(0)
	for _, z := range gZones {
		if podDomains.Has(z) {
			n++
			if counts[z] < min {
				min = counts[z]
			}
		}
	}
	if minDomains != nil && n < *minDomains {
		return 0
	}
	return min
}

func gAllowed(count, min, maxSkew int32, self bool) bool {
	if self {
		count++
	}
	return count-min <= maxSkew
}

func VerifC02_SpreadStep() {
	g := gGroup(TopologyTypeSpread)
	g.tg.maxSkew = int32(verifrt.IntRange("maxSkew", 1, 5))
	if verifrt.Choice("minDomains.set", 0, 1) == 1 {
		m := int32(verifrt.IntRange("minDomains", 1, 4))
		g.tg.minDomains = &m
	}
	podDomains, nodeDomains := gDomains("podDomains"), gDomains("nodeDomains")
	req, _ := g.tg.Get(gPod(), podDomains, nodeDomains)
	min := gMin(g.counts, podDomains, g.tg.minDomains)
	if req.Operator() == corev1.NodeSelectorOpIn {
		verifrt.Reach("domain-chosen")
		verifrt.Assert(req.Len() == 1, "a spread constraint pins the pod to one domain")
		d := req.Values()[0]
		_, registered := g.counts[d]
		verifrt.Assert(registered && nodeDomains.Has(d), "the chosen domain is one the node can be in")
		verifrt.Assert(gAllowed(g.counts[d], min, g.tg.maxSkew, g.self), "matching pods in the chosen domain + self - global minimum <= maxSkew")
		for _, z := range gZones {
			if nodeDomains.Has(z) && gAllowed(g.counts[z], min, g.tg.maxSkew, g.self) {
				verifrt.Assert(g.counts[d] <= g.counts[z], "among the admissible domains one with the fewest matching pods is chosen")
			}
		}
	} else {
		verifrt.Reach("no-domain")
		for _, z := range gZones {
			verifrt.Assert(!(nodeDomains.Has(z) && gAllowed(g.counts[z], min, g.tg.maxSkew, g.self)), "the pod is refused only when no domain the node can be in satisfies maxSkew")
		}
	}
}

func VerifC02_AntiAffinityStep() {
	g := gGroup(TopologyTypePodAntiAffinity)
	podDomains, nodeDomains := gDomains("podDomains"), gDomains("nodeDomains")
	req, _ := g.tg.Get(gPod(), podDomains, nodeDomains)
	for _, z := range gZones {
		offered := req.Has(z)
		free := g.counts[z] == 0 && podDomains.Has(z) && nodeDomains.Has(z)
		verifrt.Assert(offered == free, "exactly the domains without a matching pod that pod and node admit are offered under anti-affinity")
		if offered {
			verifrt.Reach("offered")
		}
	}
	// the placement is recorded for every domain the node could end up in; none of them is offered again
	g.tg.Record(req.Values()...)
	again, _ := g.tg.Get(gPod(), podDomains, nodeDomains)
	for _, z := range req.Values() {
		verifrt.Assert(!again.Has(z), "a domain a placed pod may occupy is never offered again under anti-affinity")
	}
}

func VerifC02_AffinityStep() {
	g := gGroup(TopologyTypePodAffinity)
	podDomains, nodeDomains := gDomains("podDomains"), gDomains("nodeDomains")
	req := g.tg.nextDomainAffinity(gPod(), podDomains, nodeDomains)
	anyMatchUsable := false // a matching pod exists in some domain the pod itself can use
	for _, z := range gZones {
		anyMatchUsable = anyMatchUsable || (g.counts[z] > 0 && podDomains.Has(z))
	}
	for _, z := range gZones {
		offered := req.Has(z) // which of several bootstrap domains is picked depends on map order; every pick must be justified
		if offered {
			verifrt.Reach("offered")
		}
		verifrt.Assert(!offered || podDomains.Has(z), "an offered domain is one the pod admits")
		verifrt.Assert(!offered || g.counts[z] > 0 || (g.self && !anyMatchUsable), "a pod with required affinity goes to a domain with a matching pod, or starts one only if it matches its own term and no match exists in any domain it can use")
		verifrt.Assert(!offered || g.counts[z] == 0 || nodeDomains.Has(z), "a populated domain is offered only if the node can be in it")
		// completeness: a populated domain admitted by pod and node is offered
		verifrt.Assert(!(g.counts[z] > 0 && podDomains.Has(z) && nodeDomains.Has(z)) || offered, "a domain with a matching pod that pod and node admit is offered")
	}
}
