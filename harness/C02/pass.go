//go:build verif

// verif:dir pkg/controllers/provisioning
//
// C02 (whole pass) — Provisioner.Schedule for replicas that carry an inter-pod constraint, next to a pod that is
// already running: in the end state of the pass no required anti-affinity term is violated (zone or hostname
// topology, against new and running pods), and a DoNotSchedule zone spread stays within maxSkew among the pods that
// carry it — for every zone a new NodeClaim could still end up in.
//
// verif:assume C02: one NodePool, one instance type offered in 3 zones, one initialized node in zone-1 with a running pod that matches the selector or not; 2..3 pending replicas (same labels) of symbolic cpu that all carry one constraint out of {required anti-affinity on zone, required anti-affinity on hostname, DoNotSchedule zone spread with maxSkew 1..2}, or one replica with a required zonal anti-affinity against unconstrained db pods; default namespace; no minDomains, matchLabelKeys, node-affinity policies
// verif:pure ^sigs\.k8s\.io/karpenter/pkg/utils/resources\.(Fits|Cmp)$
// verif:pure ^\(\*sigs\.k8s\.io/karpenter/pkg/scheduling\.Requirement\)\.(Has|Len|Operator)$

package provisioning

import (
	"strconv"

	corev1 "k8s.io/api/core/v1"
	"k8s.io/apimachinery/pkg/api/resource"
	metav1 "k8s.io/apimachinery/pkg/apis/meta/v1"

	v1 "sigs.k8s.io/karpenter/pkg/apis/v1"
	opopts "sigs.k8s.io/karpenter/pkg/operator/options"
	"sigs.k8s.io/karpenter/pkg/verifrt"
)

var rZones = []string{"zone-1", "zone-2", "zone-3"}

type rPlaced struct {
	pod   int      // index of the pending replica, -1 for the running pod
	host  string   // node or NodeClaim identity
	zones []string // every zone the host could end up in
}

func VerifC02_PassEndState() {
	w := pwNew(&opopts.Options{})
	w.addPool("pool-1", 0)
	w.addType("it-l", resource.MustParse("16"), []pwOffer{{zone: "zone-1", ct: v1.CapacityTypeOnDemand, price: 1, available: true}, {zone: "zone-2", ct: v1.CapacityTypeOnDemand, price: 1, available: true}, {zone: "zone-3", ct: v1.CapacityTypeOnDemand, price: 1, available: true}})
	w.addNode("node-1", "pool-1", "it-l", v1.CapacityTypeOnDemand, "zone-1", pwList(resource.MustParse("16")), pwInitialized)
	sel := &metav1.LabelSelector{MatchLabels: map[string]string{"app": "web"}}
	running := w.addPod("running-1", "node-1", resource.MustParse("1"))
	runningMatches := verifrt.Choice("running.matches", 0, 1) == 1
	if runningMatches {
		running.Labels = map[string]string{"app": "web"}
	}
	shape := verifrt.Choice("constraint", 0, 3)
	dbSel := &metav1.LabelSelector{MatchLabels: map[string]string{"app": "db"}}
	if shape == 3 && runningMatches {
		running.Labels = map[string]string{"app": "db"}
	}
	maxSkew := 1
	if shape == 2 {
		maxSkew = verifrt.Choice("maxSkew", 1, 2)
	}
	n := verifrt.Choice("replicas", 2, 3)
	var pods []*corev1.Pod
	for i := 0; i < n; i++ {
		p := w.addPod("web-"+strconv.Itoa(i), "", verifrt.MilliQuantity("web-"+strconv.Itoa(i)+".cpu", 1, 16000))
		p.Labels = map[string]string{"app": "web"}
		switch shape {
		case 0:
			p.Spec.Affinity = &corev1.Affinity{PodAntiAffinity: &corev1.PodAntiAffinity{RequiredDuringSchedulingIgnoredDuringExecution: []corev1.PodAffinityTerm{{LabelSelector: sel, TopologyKey: corev1.LabelTopologyZone}}}}
		case 1:
			p.Spec.Affinity = &corev1.Affinity{PodAntiAffinity: &corev1.PodAntiAffinity{RequiredDuringSchedulingIgnoredDuringExecution: []corev1.PodAffinityTerm{{LabelSelector: sel, TopologyKey: corev1.LabelHostname}}}}
		case 2:
			p.Spec.TopologySpreadConstraints = []corev1.TopologySpreadConstraint{{MaxSkew: int32(maxSkew), TopologyKey: corev1.LabelTopologyZone, WhenUnsatisfiable: corev1.DoNotSchedule, LabelSelector: sel}}
		case 3: // the first replica keeps away from db pods, which carry no constraint themselves
			if i == 0 {
				p.Spec.Affinity = &corev1.Affinity{PodAntiAffinity: &corev1.PodAntiAffinity{RequiredDuringSchedulingIgnoredDuringExecution: []corev1.PodAffinityTerm{{LabelSelector: dbSel, TopologyKey: corev1.LabelTopologyZone}}}}
			} else {
				p.Labels = map[string]string{"app": "db"}
			}
		}
		pods = append(pods, p)
	}
	w.deliver()

	results, err := w.prov.Schedule(w.ctx)
	verifrt.Assert(err == nil, "the scheduling pass completes")
	verifrt.Reach("pass")

	// where every matching pod ends up
	var placed []rPlaced
	launchable := true
	if runningMatches {
		placed = append(placed, rPlaced{pod: -1, host: "node-1", zones: []string{"zone-1"}})
	}
	for pi, p := range pods {
		pl, cnt := pwFind(results, p.UID)
		verifrt.Assert(cnt <= 1, "a pod is placed at most once")
		switch {
		case pl.existing != "":
			placed = append(placed, rPlaced{pod: pi, host: pl.existing, zones: []string{"zone-1"}})
		case pl.claim != nil:
			zr := pl.claim.Requirements.Get(corev1.LabelTopologyZone)
			var zs []string
			for _, z := range rZones {
				if zr.Has(z) {
					zs = append(zs, z)
				}
			}
			launchable = launchable && len(zs) > 0
			idx := -1
			for k, nc := range results.NewNodeClaims {
				if nc == pl.claim {
					idx = k
				}
			}
			placed = append(placed, rPlaced{pod: pi, host: "claim:" + strconv.Itoa(idx), zones: zs})
		}
	}
	verifrt.Assert(launchable, "a new NodeClaim can be launched in some zone")
	if len(placed) >= 2 {
		verifrt.Reach("several-matching-pods")
	}
	switch shape {
	case 3:
		// placed[first] is the running pod when it matches; the carrier is the first pending replica
		carrier, apart := -1, true
		for k := range placed {
			if placed[k].pod == 0 {
				carrier = k
			}
		}
		for k := range placed {
			if carrier < 0 || k == carrier {
				continue
			}
			for _, a := range placed[carrier].zones {
				for _, b := range placed[k].zones {
					apart = apart && a != b
				}
			}
		}
		verifrt.Assert(apart, "a pod is never put into a zone shared with a pod its required anti-affinity term selects, in either direction")
	case 0:
		apart := true
		for i := range placed {
			for j := i + 1; j < len(placed); j++ {
				for _, a := range placed[i].zones {
					for _, b := range placed[j].zones {
						apart = apart && a != b
					}
				}
			}
		}
		verifrt.Assert(apart, "no two pods under a required zonal anti-affinity can end up in the same zone")
	case 1:
		apart := true
		for i := range placed {
			for j := i + 1; j < len(placed); j++ {
				apart = apart && placed[i].host != placed[j].host
			}
		}
		verifrt.Assert(apart, "no two pods under a required hostname anti-affinity share a node")
	case 2:
		// every combination of zones the undetermined NodeClaims could end up in
		within := true
		var rec func(k int, counts map[string]int)
		rec = func(k int, counts map[string]int) {
			if k == len(placed) {
				min, max := counts[rZones[0]], counts[rZones[0]]
				for _, z := range rZones {
					if counts[z] < min {
						min = counts[z]
					}
					if counts[z] > max {
						max = counts[z]
					}
				}
				within = within && max-min <= maxSkew
				return
			}
			for _, z := range placed[k].zones {
				counts[z]++
				rec(k+1, counts)
				counts[z]--
			}
		}
		rec(0, map[string]int{})
		verifrt.Assert(within, "a DoNotSchedule zone spread stays within maxSkew in every zone assignment the NodeClaims allow")
	}
}

// Running pods that carry a required anti-affinity term keep the pods it selects out of their domains, however many
// running pods share the term.
func VerifC02_PassRespectsRunningGuards() {
	w := pwNew(&opopts.Options{})
	w.addPool("pool-1", 0)
	w.addType("it-l", resource.MustParse("16"), []pwOffer{{zone: "zone-1", ct: v1.CapacityTypeOnDemand, price: 1, available: true}, {zone: "zone-2", ct: v1.CapacityTypeOnDemand, price: 1, available: true}, {zone: "zone-3", ct: v1.CapacityTypeOnDemand, price: 1, available: true}})
	sel := &metav1.LabelSelector{MatchLabels: map[string]string{"app": "web"}}
	guards := verifrt.Choice("guards", 1, verifrt.Bound("maxGuards", 2, 3))
	key := []string{corev1.LabelTopologyZone, corev1.LabelHostname}[verifrt.Choice("topologyKey", 0, 1)]
	guarded := map[string]bool{}
	for i := 0; i < guards; i++ {
		zone := rZones[verifrt.Choice("guard-"+strconv.Itoa(i)+".zone", 0, 2)]
		name := "node-" + strconv.Itoa(i)
		w.addNode(name, "pool-1", "it-l", v1.CapacityTypeOnDemand, zone, pwList(resource.MustParse("16")), pwInitialized)
		g := w.addPod("guard-"+strconv.Itoa(i), name, resource.MustParse("1"))
		g.Labels = map[string]string{"app": "guard"}
		g.Spec.Affinity = &corev1.Affinity{PodAntiAffinity: &corev1.PodAntiAffinity{RequiredDuringSchedulingIgnoredDuringExecution: []corev1.PodAffinityTerm{{LabelSelector: sel, TopologyKey: key}}}}
		if key == corev1.LabelTopologyZone {
			guarded[zone] = true
		} else {
			guarded[name] = true
		}
	}
	// a node without a guard, in any zone
	freeZone := rZones[verifrt.Choice("free.zone", 0, 2)]
	w.addNode("node-free", "pool-1", "it-l", v1.CapacityTypeOnDemand, freeZone, pwList(resource.MustParse("16")), pwInitialized)
	zoneOf := map[string]string{"node-free": freeZone}
	for i := 0; i < guards; i++ {
		zoneOf["node-"+strconv.Itoa(i)] = w.kc.Nodes[i].Labels[corev1.LabelTopologyZone]
	}
	n := verifrt.Choice("replicas", 1, 2)
	var pods []*corev1.Pod
	for i := 0; i < n; i++ {
		p := w.addPod("web-"+strconv.Itoa(i), "", verifrt.MilliQuantity("web-"+strconv.Itoa(i)+".cpu", 1, 16000))
		p.Labels = map[string]string{"app": "web"}
		pods = append(pods, p)
	}
	w.deliver()

	results, err := w.prov.Schedule(w.ctx)
	verifrt.Assert(err == nil, "the scheduling pass completes")
	verifrt.Reach("pass")
	clear := true
	for _, p := range pods {
		pl, _ := pwFind(results, p.UID)
		switch {
		case pl.existing != "":
			verifrt.Reach("on-existing")
			if key == corev1.LabelHostname {
				clear = clear && !guarded[pl.existing]
			} else {
				clear = clear && !guarded[zoneOf[pl.existing]]
			}
		case pl.claim != nil:
			verifrt.Reach("on-new")
			if key == corev1.LabelTopologyZone {
				zr := pl.claim.Requirements.Get(corev1.LabelTopologyZone)
				for _, z := range rZones {
					clear = clear && !(zr.Has(z) && guarded[z])
				}
			}
		}
	}
	verifrt.Assert(clear, "a pod selected by the required anti-affinity term of a running pod is never put into that pod's domain, for every domain a new NodeClaim could end up in")
}
