//go:build verif

// verif:dir pkg/controllers/nodeclaim/disruption
//
// C07 (Consolidatable condition) — after the sub-controller ran, the NodeClaim is Consolidatable exactly when
// consolidation is enabled, the NodeClaim is initialized and consolidateAfter has elapsed since the last pod
// event (or since initialization when there was none), whatever the condition was before.
//
// verif:assume C07: the clock does not advance inside one reconcile; recorded timestamps are not in the future; consolidateAfter in 0..30 days; instants between 1970 and 2043

package disruption

import (
	"context"
	"time"

	metav1 "k8s.io/apimachinery/pkg/apis/meta/v1"

	v1 "sigs.k8s.io/karpenter/pkg/apis/v1"
	"sigs.k8s.io/karpenter/pkg/verifrt"
	"sigs.k8s.io/karpenter/pkg/verifrt/stubs"
)

func VerifC07_ConsolidatableCondition() {
	now := verifrt.Time("now")
	clk := &stubs.Clock{Frozen: true}
	clk.Set(now)
	kc := &stubs.Client{Clock: clk}
	pool := &v1.NodePool{}
	pool.Name = "pool-1"
	enabled := verifrt.Choice("consolidateAfter.set", 0, 1) == 1
	var after time.Duration
	if enabled {
		after = verifrt.Duration("consolidateAfter", 0, 30*24*time.Hour)
		pool.Spec.Disruption.ConsolidateAfter = v1.NillableDuration{Duration: &after}
	}
	nc := stubs.NodeClaim("nc-1")
	initialized := verifrt.Choice("initialized", 0, 2) // absent, True, False
	initSince := verifrt.Time("initialized.since")
	switch initialized {
	case 1:
		stubs.SetCondition(nc, v1.ConditionTypeInitialized, metav1.ConditionTrue, initSince)
	case 2:
		stubs.SetCondition(nc, v1.ConditionTypeInitialized, metav1.ConditionFalse, initSince)
	}
	podEvent := verifrt.Choice("lastPodEvent.set", 0, 1) == 1
	var lastPodEvent time.Time
	if podEvent {
		lastPodEvent = verifrt.Time("lastPodEvent")
		nc.Status.LastPodEventTime = metav1.Time{Time: lastPodEvent}
	}
	// whatever the condition was before (a stale True included)
	switch verifrt.Choice("consolidatable.before", 0, 2) {
	case 1:
		stubs.SetCondition(nc, v1.ConditionTypeConsolidatable, metav1.ConditionTrue, verifrt.Time("consolidatable.since"))
		verifrt.Reach("stale-true-possible")
	case 2:
		stubs.SetCondition(nc, v1.ConditionTypeConsolidatable, metav1.ConditionFalse, verifrt.Time("consolidatable.since"))
	}
	c := &Consolidation{kubeClient: kc, clock: clk}
	_, err := c.Reconcile(context.Background(), pool, nc)
	verifrt.Assert(err == nil, "the sub-controller does not fail")
	ref := initSince
	if podEvent {
		ref = lastPodEvent
	}
	verifrt.Assume(!now.Before(ref)) // recorded timestamps are not in the future
	want := enabled && initialized == 1 && now.Sub(ref) >= after
	got := nc.StatusConditions().Get(v1.ConditionTypeConsolidatable).IsTrue()
	verifrt.Observe("consolidatable", got)
	verifrt.Assert(got == want, "Consolidatable exactly when consolidation is enabled, the NodeClaim is initialized and consolidateAfter elapsed since the last pod event")
}
