//go:build verif

// verif:dir pkg/controllers/disruption
//
// C07 — voluntary disruption never targets a node that is unmanaged, uninitialized, already deleting, recently
// nominated, annotated do-not-disrupt, already the subject of an action, or hosting a pod with an active
// do-not-disrupt annotation or a PDB that currently blocks its eviction; only drift may override the pod-level
// blockers and only when the NodeClaim has a terminationGracePeriod. Consolidation additionally needs the
// NodeClaim to be Consolidatable, a dynamic pool with consolidation enabled and, for non-empty nodes, a policy
// other than WhenEmpty; nodes holding capacity-buffer placements are not treated as empty (DESIGN §7 C07).
//
// One node built through the informer entry points of the real cluster state, at most one pod and one PDB,
// for each of the five methods: NewCandidate(...) succeeds and ShouldDisrupt(...) holds only if no blocker applies.
//
// verif:assume C07: one node, at most one pod and one PDB; the quick tier varies node-level blockers, pod-level blockers and consolidation settings in three separate sweeps, the thorough tier takes their full product
// verif:assume C07: a do-not-disrupt annotation blocks only while the pod is active (not terminal, not terminating); a PDB blocks only pods Karpenter would evict (pod.IsDisruptable / IsEvictable document this)

package disruption

import (
	"context"
	"time"

	corev1 "k8s.io/api/core/v1"
	policyv1 "k8s.io/api/policy/v1"
	metav1 "k8s.io/apimachinery/pkg/apis/meta/v1"
	"k8s.io/apimachinery/pkg/api/resource"

	v1 "sigs.k8s.io/karpenter/pkg/apis/v1"
	"sigs.k8s.io/karpenter/pkg/cloudprovider"
	"sigs.k8s.io/karpenter/pkg/controllers/state"
	"sigs.k8s.io/karpenter/pkg/operator/options"
	"sigs.k8s.io/karpenter/pkg/utils/pdb"
	"sigs.k8s.io/karpenter/pkg/verifrt"
	"sigs.k8s.io/karpenter/pkg/verifrt/stubs"
)

const (
	nbNone = iota
	nbUnmanaged
	nbUninitialized
	nbMarked
	nbNominated
	nbAnnotated
	nbInQueue
)

const (
	psNone = iota
	psPlain
	psDoNotDisrupt
	psDoNotDisruptDuration
	psTerminalDoNotDisrupt
	psPDBBlocks
	psPDBAllows
)

func VerifC07_CandidateMatrix() {
	ctx := options.ToContext(context.Background(), &options.Options{})
	now := time.Unix(1700000000, 0)
	clk := &stubs.Clock{Frozen: true}
	clk.Set(now)
	kc := &stubs.Client{Clock: clk}
	cp := stubs.ManagedProvider()
	cluster := state.NewCluster(clk, kc, cp)
	rec := &stubs.Recorder{}

	// ---- dimensions ----
	nodeBlock, podShape := nbNone, psNone
	tgp, static, consolidateAfterSet, whenEmpty, consolidatable, drifted, buffer := false, false, true, false, true, true, false
	pick := func(label string) bool { return verifrt.Choice(label, 0, 1) == 1 }
	sweep := 3
	if verifrt.Bound("fullProduct", 0, 1) == 0 {
		sweep = verifrt.Choice("sweep", 0, 2)
	}
	if sweep == 0 || sweep == 3 {
		nodeBlock = verifrt.Choice("nodeBlocker", nbNone, nbInQueue)
		tgp = pick("terminationGracePeriod")
	}
	if sweep == 1 || sweep == 3 {
		podShape = verifrt.Choice("pod", psNone, psPDBAllows)
		if sweep == 1 {
			tgp = pick("terminationGracePeriod")
		}
		static, drifted = pick("staticPool"), pick("drifted")
	}
	if sweep == 2 || sweep == 3 {
		if sweep == 2 {
			podShape = verifrt.Choice("pod", psNone, psPlain)
			static = pick("staticPool")
		}
		consolidateAfterSet, whenEmpty, consolidatable, buffer = pick("consolidateAfter"), pick("whenEmpty"), pick("consolidatable"), pick("bufferPods")
	}
	method := verifrt.Choice("method", 0, 4)

	// ---- objects ----
	pool := &v1.NodePool{}
	pool.Name = "pool-1"
	if static {
		pool.Spec.Replicas = new(int64)
	}
	if consolidateAfterSet {
		d := 30 * time.Second
		pool.Spec.Disruption.ConsolidateAfter = v1.NillableDuration{Duration: &d}
	}
	// the NodePool's template may ask for a terminationGracePeriod that this (older) NodeClaim does not carry: only the
	// NodeClaim's own setting counts
	if (sweep == 1 || sweep == 3) && pick("pool.terminationGracePeriod") {
		pool.Spec.Template.Spec.TerminationGracePeriod = &metav1.Duration{Duration: time.Hour}
	}
	pool.Spec.Disruption.ConsolidationPolicy = v1.ConsolidationPolicyWhenEmptyOrUnderutilized
	if whenEmpty {
		pool.Spec.Disruption.ConsolidationPolicy = v1.ConsolidationPolicyWhenEmpty
	}
	it := &cloudprovider.InstanceType{Name: "it-1", Capacity: corev1.ResourceList{corev1.ResourceCPU: resource.MustParse("4")}}
	const pid = "verif://i-1"
	node := stubs.Node("node-1", pid, corev1.ConditionTrue)
	node.Labels = map[string]string{
		corev1.LabelInstanceTypeStable: "it-1", v1.CapacityTypeLabelKey: v1.CapacityTypeOnDemand, corev1.LabelTopologyZone: "zone-1",
		v1.NodePoolLabelKey: "pool-1", v1.NodeRegisteredLabelKey: "true",
	}
	if nodeBlock != nbUninitialized {
		node.Labels[v1.NodeInitializedLabelKey] = "true"
	}
	if nodeBlock == nbAnnotated {
		node.Annotations = map[string]string{v1.DoNotDisruptAnnotationKey: "true"}
	}
	var nc *v1.NodeClaim
	if nodeBlock != nbUnmanaged {
		nc = stubs.NodeClaim("nc-1")
		nc.Status.ProviderID, nc.Status.NodeName = pid, node.Name
		nc.CreationTimestamp = metav1.Time{Time: now.Add(-time.Hour)}
		if tgp {
			nc.Spec.TerminationGracePeriod = &metav1.Duration{Duration: time.Hour}
		}
		stubs.SetCondition(nc, v1.ConditionTypeInitialized, metav1.ConditionTrue, now.Add(-time.Hour))
		if consolidatable {
			stubs.SetCondition(nc, v1.ConditionTypeConsolidatable, metav1.ConditionTrue, now.Add(-time.Minute))
		}
		if drifted {
			stubs.SetCondition(nc, v1.ConditionTypeDrifted, metav1.ConditionTrue, now.Add(-time.Minute))
		}
		kc.Claims = append(kc.Claims, nc)
		cluster.UpdateNodeClaim(nc)
	} else {
		delete(node.Labels, v1.NodePoolLabelKey)
	}
	kc.Nodes = append(kc.Nodes, node)

	// pod and PDB
	podBlocks := false // a pod-level blocker is in force
	hasRunningPod := false
	if podShape != psNone {
		p := &corev1.Pod{}
		p.Name, p.Namespace, p.UID = "pod-1", "default", "uid-pod-1"
		p.Labels = map[string]string{"app": "web"}
		p.Spec.NodeName = node.Name
		p.Status.Phase = corev1.PodRunning
		p.OwnerReferences = []metav1.OwnerReference{{APIVersion: "apps/v1", Kind: "ReplicaSet", Name: "rs"}}
		hasRunningPod = true
		switch podShape {
		case psDoNotDisrupt:
			p.Annotations = map[string]string{v1.DoNotDisruptAnnotationKey: "true"}
			podBlocks = true
		case psDoNotDisruptDuration:
			d := verifrt.Duration("doNotDisrupt.duration", 1, 30*24*time.Hour)
			start := verifrt.Time("pod.startTime")
			p.Annotations = map[string]string{v1.DoNotDisruptAnnotationKey: verifrt.DurationStringOf(d)}
			p.Status.StartTime = &metav1.Time{Time: start}
			podBlocks = now.Sub(start) < d
		case psTerminalDoNotDisrupt:
			p.Annotations = map[string]string{v1.DoNotDisruptAnnotationKey: "true"}
			p.Status.Phase = corev1.PodSucceeded
			hasRunningPod = false
		case psPDBBlocks, psPDBAllows:
			b := &policyv1.PodDisruptionBudget{}
			b.Name, b.Namespace = "pdb-1", "default"
			b.Spec.Selector = &metav1.LabelSelector{MatchLabels: map[string]string{"app": "web"}}
			if podShape == psPDBAllows {
				b.Status.DisruptionsAllowed = 1
			} else {
				podBlocks = true
			}
			kc.PDBs = append(kc.PDBs, b)
		}
		kc.Pods = append(kc.Pods, p)
	}
	verifrt.Assert(cluster.UpdateNode(ctx, node) == nil, "the node is accepted by cluster state")
	if nodeBlock == nbMarked {
		cluster.MarkForDeletion(pid)
	}
	if nodeBlock == nbNominated {
		cluster.NominateNodeForPod(ctx, pid)
		// an ordinary update of the Node or the NodeClaim arriving afterwards does not end the nomination
		switch verifrt.Choice("updateAfterNomination", 0, 2) {
		case 1:
			node.Annotations = map[string]string{"example.com/touched": "true"}
			verifrt.Assert(cluster.UpdateNode(ctx, node) == nil, "the node update is accepted by cluster state")
		case 2:
			if nc != nil {
				nc.Annotations = map[string]string{"example.com/touched": "true"}
				cluster.UpdateNodeClaim(nc)
			}
		}
	}
	if buffer {
		cluster.UpdateBufferPodCounts(map[string]int{pid: 1})
	}
	queue := NewQueue(kc, rec, cluster, clk, nil)
	if nodeBlock == nbInQueue {
		queue.ProviderIDToCommand[pid] = &Command{}
	}
	limits, err := pdb.NewLimits(ctx, kc)
	verifrt.Assert(err == nil, "PDB limits are built")

	c := MakeConsolidation(clk, cluster, kc, nil, cp, rec, queue)
	methods := []Method{NewEmptiness(c), NewSingleNodeConsolidation(c), NewMultiNodeConsolidation(c), NewDrift(kc, cluster, nil, rec, clk), NewStaticDrift(cluster, nil, cp)}
	m := methods[method]
	isDrift := method >= 3

	var sn *state.StateNode
	for n := range cluster.Nodes() {
		sn = n
	}
	verifrt.Assert(sn != nil, "the node is tracked")
	cand, cerr := NewCandidate(ctx, kc, rec, clk, sn, limits, map[string]*v1.NodePool{"pool-1": pool},
		map[string]map[string]*cloudprovider.InstanceType{"pool-1": {"it-1": it}}, queue, m.Class())
	selected := cerr == nil && m.ShouldDisrupt(ctx, cand)
	verifrt.Observe("selected", selected)
	if !selected {
		return
	}
	verifrt.Reach("selected")
	verifrt.Assert(nodeBlock == nbNone, "a node that is unmanaged, uninitialized, deleting, nominated, annotated do-not-disrupt or already being disrupted is never selected")
	verifrt.Assert(!podBlocks || (isDrift && tgp), "a pod-level blocker (active do-not-disrupt, blocking PDB) is overridden only by drift and only with a terminationGracePeriod")
	if isDrift {
		verifrt.Assert(drifted, "drift only selects drifted NodeClaims")
		verifrt.Assert((method == 4) == static, "static pools are handled by static drift only")
	} else {
		verifrt.Assert(!static, "consolidation never selects nodes of a static NodePool")
		verifrt.Assert(consolidateAfterSet, "consolidation needs consolidateAfter to be enabled")
		verifrt.Assert(consolidatable, "consolidation needs the NodeClaim to be Consolidatable")
		if method == 0 {
			verifrt.Assert(!hasRunningPod, "only nodes without reschedulable pods of positive cost are deleted as empty")
			verifrt.Assert(!buffer, "nodes holding capacity-buffer placements are not treated as empty")
		} else {
			verifrt.Assert(hasRunningPod, "empty nodes are left to the Emptiness method")
			verifrt.Assert(!whenEmpty, "non-empty nodes are consolidated only under a policy other than WhenEmpty")
		}
	}
}
