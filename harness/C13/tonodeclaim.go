//go:build verif

// verif:dir pkg/controllers/provisioning/scheduling
//
// C13 (launch-request half) — the NodeClaim written to the API for each in-flight NodeClaim of a batch admits, key by
// key, exactly what the scheduler's in-memory requirements admit; its instance-type list is the scheduler's option
// list; its resource requests cover the pods placed on it plus the daemon overhead; its labels, taints and NodePool
// hash come from the NodePool template (plus labels resolved from its own requirements) — also when sibling
// NodeClaims of the same NodePool are built in the same batch (DESIGN §7 C13-3). A second harness checks that
// truncating the option list keeps every minValues floor or reports an error under the strict policy (C13-4).
//
// verif:assume C13: two sibling NodeClaims of one NodePool, one pod each (symbolic cpu, optional custom-label selector or NotIn affinity); template with a label, a taint, a startup taint; custom key requirement none / In / Exists / NotIn / Gt; 2 instance types x 2 offerings; up to 2 daemon-overhead groups with symbolic cpu; topology, volumes, DRA, reserved offerings outside
// verif:pure ^\(\*sigs\.k8s\.io/karpenter/pkg/scheduling\.Requirement\)\.(Has|Len|Operator)$
// verif:pure ^sigs\.k8s\.io/karpenter/pkg/scheduling\.withinBounds$
// verif:pure ^sigs\.k8s\.io/karpenter/pkg/utils/resources\.(Fits|Cmp)$

package scheduling

import (
	"context"
	"strconv"

	corev1 "k8s.io/api/core/v1"
	"k8s.io/apimachinery/pkg/api/resource"

	v1 "sigs.k8s.io/karpenter/pkg/apis/v1"
	"sigs.k8s.io/karpenter/pkg/cloudprovider"
	opopts "sigs.k8s.io/karpenter/pkg/operator/options"
	"sigs.k8s.io/karpenter/pkg/scheduling"
	"sigs.k8s.io/karpenter/pkg/utils/resources"
	"sigs.k8s.io/karpenter/pkg/verifrt"
)

const tKey = "example.com/team"

func tType(name string, price float64, cpu ...string) *cloudprovider.InstanceType {
	capCPU := "1000"
	if len(cpu) > 0 {
		capCPU = cpu[0]
	}
	var ofs cloudprovider.Offerings
	for k, o := range [][2]string{{"zone-1", v1.CapacityTypeOnDemand}, {"zone-2", v1.CapacityTypeSpot}} {
		ofs = append(ofs, &cloudprovider.Offering{Available: true, Price: price + float64(k), Requirements: scheduling.NewRequirements(
			scheduling.NewRequirement(corev1.LabelTopologyZone, corev1.NodeSelectorOpIn, o[0]),
			scheduling.NewRequirement(v1.CapacityTypeLabelKey, corev1.NodeSelectorOpIn, o[1]),
		)})
	}
	return &cloudprovider.InstanceType{
		Name: name,
		Requirements: scheduling.NewRequirements(
			scheduling.NewRequirement(corev1.LabelInstanceTypeStable, corev1.NodeSelectorOpIn, name),
			scheduling.NewRequirement(corev1.LabelTopologyZone, corev1.NodeSelectorOpIn, "zone-1", "zone-2"),
			scheduling.NewRequirement(v1.CapacityTypeLabelKey, corev1.NodeSelectorOpIn, v1.CapacityTypeOnDemand, v1.CapacityTypeSpot),
		),
		Offerings: ofs,
		Capacity:  corev1.ResourceList{corev1.ResourceCPU: resource.MustParse(capCPU), corev1.ResourcePods: resource.MustParse("110")},
		Overhead:  &cloudprovider.InstanceTypeOverhead{},
	}
}

type tPodSpec struct {
	pod    *corev1.Pod
	cpu    resource.Quantity
	custom int // 0 none, 1 nodeSelector = atom, 2 required NotIn [atom]
	atom   string
}

func tPod(tag string, atom string) *tPodSpec {
	p := &corev1.Pod{}
	p.Name, p.Namespace = tag, "default"
	p.UID = "uid-" + p.UID
	s := &tPodSpec{pod: p, cpu: verifrt.Quantity(tag+".cpu", 0, 100000), atom: atom}
	p.Spec.Containers = []corev1.Container{{Name: "main", Resources: corev1.ResourceRequirements{Requests: corev1.ResourceList{corev1.ResourceCPU: s.cpu}}}}
	p.Spec.Tolerations = []corev1.Toleration{{Operator: corev1.TolerationOpExists}}
	s.custom = verifrt.Choice(tag+".custom", 0, 2)
	switch s.custom {
	case 1:
		p.Spec.NodeSelector = map[string]string{tKey: atom}
	case 2:
		p.Spec.Affinity = &corev1.Affinity{NodeAffinity: &corev1.NodeAffinity{RequiredDuringSchedulingIgnoredDuringExecution: &corev1.NodeSelector{NodeSelectorTerms: []corev1.NodeSelectorTerm{
			{MatchExpressions: []corev1.NodeSelectorRequirement{{Key: tKey, Operator: corev1.NodeSelectorOpNotIn, Values: []string{atom}}}}}}}}
	}
	return s
}

func tTaintsEqual(a, b []corev1.Taint) bool {
	if len(a) != len(b) {
		return false
	}
	for i := range a {
		if a[i].Key != b[i].Key || a[i].Value != b[i].Value || a[i].Effect != b[i].Effect {
			return false
		}
	}
	return true
}

func VerifC13_ToNodeClaim() {
	ctx := opopts.ToContext(context.Background(), &opopts.Options{})
	u := []string{verifrt.Atom(0), verifrt.Atom(1)}
	np := &v1.NodePool{}
	np.Name, np.UID = "pool-1", "uid-pool-1"
	np.Spec.Template.Spec.NodeClassRef = &v1.NodeClassReference{Group: "karpenter.test.sh", Kind: "TestNodeClass", Name: "default"}
	np.Spec.Template.Labels = map[string]string{"tier": "a"}
	np.Spec.Template.Spec.Taints = []corev1.Taint{{Key: "dedicated", Value: "x", Effect: corev1.TaintEffectNoSchedule}}
	np.Spec.Template.Spec.StartupTaints = []corev1.Taint{{Key: "boot", Effect: corev1.TaintEffectNoExecute}}
	poolShape := verifrt.Choice("pool.custom", 0, 4)
	addReq := func(op corev1.NodeSelectorOperator, vals ...string) {
		np.Spec.Template.Spec.Requirements = append(np.Spec.Template.Spec.Requirements, v1.NodeSelectorRequirementWithMinValues{Key: tKey, Operator: op, Values: vals})
	}
	switch poolShape {
	case 1:
		addReq(corev1.NodeSelectorOpIn, u[0], u[1])
	case 2:
		addReq(corev1.NodeSelectorOpExists)
	case 3:
		addReq(corev1.NodeSelectorOpNotIn, u[0])
	case 4:
		raw := verifrt.Atom(10)
		n, err := strconv.Atoi(raw)
		verifrt.Assume(err == nil && n >= 0)
		addReq(corev1.NodeSelectorOpGt, raw)
	}
	// the first type is small: a large pod narrows the NodeClaim's options to the second one, also inside one overhead group
	its := []*cloudprovider.InstanceType{tType("it-a", 1, "50000"), tType("it-b", 3, "300000")}
	overhead := []resource.Quantity{verifrt.Quantity("daemon.cpu.group0", 0, 100000), verifrt.Quantity("daemon.cpu.group1", 0, 100000)}
	groups := []DaemonOverheadGroup{{InstanceTypes: its[:1], DaemonOverhead: corev1.ResourceList{corev1.ResourceCPU: overhead[0]}, HostPortUsage: scheduling.NewHostPortUsage()}}
	if verifrt.Choice("daemon.groups", 1, 2) == 2 {
		groups = append(groups, DaemonOverheadGroup{InstanceTypes: its[1:], DaemonOverhead: corev1.ResourceList{corev1.ResourceCPU: overhead[1]}, HostPortUsage: scheduling.NewHostPortUsage()})
	} else {
		groups[0].InstanceTypes = its
	}

	nct := NewNodeClaimTemplate(np)
	rm := NewReservationManager(nil)
	pods := []*tPodSpec{tPod("pod-1", u[0]), tPod("pod-2", u[1])}
	var ns []*NodeClaim
	for _, p := range pods {
		n := NewNodeClaim(nct, &Topology{}, groups, its, rm, ReservedOfferingModeFallback)
		pd := &PodData{Requests: resources.RequestsForPods(p.pod), Requirements: scheduling.NewPodRequirements(p.pod), StrictRequirements: scheduling.NewStrictPodRequirements(p.pod)}
		reqs, remaining, ofs, _, err := n.CanAdd(ctx, p.pod, pd, false, nil)
		if err != nil {
			return
		}
		n.Add(ctx, p.pod, pd, reqs, remaining, ofs, nil, nil)
		ns = append(ns, n)
	}
	for _, n := range ns {
		n.FinalizeScheduling()
	}
	verifrt.Reach("both-placed")
	// the batch is turned into launch requests one after the other
	var ncs []*v1.NodeClaim
	for _, n := range ns {
		ncs = append(ncs, n.ToNodeClaim())
	}

	probe := []string{u[0], u[1], verifrt.Atom(9), "zone-1", "zone-2", "zone-3", v1.CapacityTypeOnDemand, v1.CapacityTypeSpot, v1.CapacityTypeReserved, "it-a", "it-b", "it-c"}
	for k, n := range ns {
		nc, p := ncs[k], pods[k]
		mem := n.Requirements
		written := scheduling.NewNodeSelectorRequirementsWithMinValues(nc.Spec.Requirements...)
		// C13-F1: the exclusion list is not serialised next to a bound; C13-F3: Any() ignores the exclusion list
		cr := mem.Get(tKey)
		excl := mem.Has(tKey) && cr.Operator() != corev1.NodeSelectorOpIn && cr.Operator() != corev1.NodeSelectorOpDoesNotExist && (poolShape == 3 || p.custom == 2)
		verifrt.KnownFinding("C13-F1", excl && poolShape == 4)
		verifrt.KnownFinding("C13-F3", excl)

		// (a) key by key, the written requirements admit exactly what the in-memory requirements admit
		for _, key := range []string{tKey, corev1.LabelTopologyZone, v1.CapacityTypeLabelKey, corev1.LabelInstanceTypeStable} {
			verifrt.Assert(written.Has(key) == mem.Has(key), "the written NodeClaim constrains exactly the keys the scheduler's requirements constrain")
			if !mem.Has(key) {
				continue
			}
			for _, w := range probe {
				verifrt.Assert(written.Get(key).Has(w) == mem.Get(key).Has(w), "the written NodeClaim admits, key by key, exactly the label values the scheduler's requirements admit")
			}
		}
		verifrt.Assert(!written.Has(v1.NodeRegisteredLabelKey) && !written.Has(v1.NodeInitializedLabelKey) && !written.Has(corev1.LabelHostname),
			"simulation-only requirements are not written to the NodeClaim")
		// (b) instance types: exactly the scheduler's options
		itr := written.Get(corev1.LabelInstanceTypeStable)
		verifrt.Assert(itr.Len() == len(n.InstanceTypeOptions), "the instance-type list has one entry per scheduler option")
		for _, it := range n.InstanceTypeOptions {
			verifrt.Assert(itr.Has(it.Name), "every scheduler option is in the written instance-type list")
		}
		// (c) requests = the pod placed on it + the minimum daemon overhead over groups that still have an option
		var min *resource.Quantity
		for gi, g := range groups {
			has := false
			for _, it := range g.InstanceTypes {
				for _, o := range n.InstanceTypeOptions {
					if o == it {
						has = true
					}
				}
			}
			if has && (min == nil || overhead[gi].Cmp(*min) < 0) {
				q := overhead[gi]
				min = &q
			}
		}
		want := p.cpu.DeepCopy()
		if min != nil {
			want.Add(*min)
		}
		got := nc.Spec.Resources.Requests[corev1.ResourceCPU]
		verifrt.Assert(got.Cmp(want) == 0, "the written resource requests are the pods placed on the NodeClaim plus the daemon overhead")
		// (d) labels: the template's, the NodePool's, and values resolved from this NodeClaim's own requirements
		verifrt.Assert(nc.Labels["tier"] == "a" && nc.Labels[v1.NodePoolLabelKey] == "pool-1", "template labels and the NodePool label are written unchanged")
		for key, val := range nc.Labels {
			verifrt.Assert(mem.Has(key), "every written label is backed by one of this NodeClaim's own requirements")
			if mem.Has(key) {
				verifrt.Assert(mem.Get(key).Has(val), "every written label value is admitted by this NodeClaim's own requirements")
			}
		}
		if lv, ok := nc.Labels[tKey]; ok {
			verifrt.Reach("custom-label-resolved")
			_ = lv
		}
		// (e) taints and hash come from the template
		verifrt.Assert(tTaintsEqual(nc.Spec.Taints, np.Spec.Template.Spec.Taints) && tTaintsEqual(nc.Spec.StartupTaints, np.Spec.Template.Spec.StartupTaints),
			"taints and startup taints are the template's")
		verifrt.Assert(nc.Annotations[v1.NodePoolHashAnnotationKey] == np.Hash() && nc.Annotations[v1.NodePoolHashVersionAnnotationKey] == v1.NodePoolHashVersion,
			"the NodePool hash annotation is the hash of the NodePool the NodeClaim was created from")
	}
	// the template itself is not changed by building launch requests from it
	verifrt.Assert(len(nct.Labels) == 3 && nct.Labels["tier"] == "a", "building launch requests leaves the NodePool's template labels unchanged")
}

// C13-4: truncation keeps every minValues floor or fails under the strict policy
func VerifC13_TruncateKeepsMinValues() {
	ctx := opopts.ToContext(context.Background(), &opopts.Options{MinValuesPolicy: opopts.MinValuesPolicyStrict})
	n := verifrt.Bound("types", 3, 4)
	var its cloudprovider.InstanceTypes
	fam := make([]int, n)
	index := map[*cloudprovider.InstanceType]int{} // OrderByPrice sorts the receiver in place
	for i := 0; i < n; i++ {
		it := tType("it-"+strconv.Itoa(i), 1)
		for k, o := range it.Offerings {
			o.Price = verifrt.Float("price." + strconv.Itoa(i) + "." + strconv.Itoa(k))
			verifrt.Assume(o.Price > 0 && o.Price < 1000)
		}
		fam[i] = verifrt.Choice("family."+strconv.Itoa(i), 0, 1)
		it.Requirements.Add(scheduling.NewRequirement(tKey, corev1.NodeSelectorOpIn, []string{"fam-x", "fam-y"}[fam[i]]))
		its = append(its, it)
		index[it] = i
	}
	minTypes, minFams := verifrt.Choice("minValues.instanceType", 0, n), verifrt.Choice("minValues.family", 0, 2)
	reqs := scheduling.NewRequirements()
	if minTypes > 0 {
		reqs.Add(scheduling.NewRequirementWithFlexibility(corev1.LabelInstanceTypeStable, corev1.NodeSelectorOpExists, &minTypes))
	}
	if minFams > 0 {
		reqs.Add(scheduling.NewRequirementWithFlexibility(tKey, corev1.NodeSelectorOpExists, &minFams))
	}
	max := verifrt.Choice("maxItems", 1, n)
	out, err := its.Truncate(ctx, reqs, max)
	if err != nil {
		verifrt.Reach("floor-unmet")
		return
	}
	verifrt.Reach("truncated")
	verifrt.Assert(len(out) <= max && len(out) > 0, "the truncated list respects the limit and is not empty")
	names, fams := map[string]bool{}, map[int]bool{}
	for _, it := range out {
		idx, ok := index[it]
		if !ok {
			idx = -1
		}
		verifrt.Assert(idx >= 0, "the truncated list is a subset of the scheduler's options")
		if idx >= 0 {
			names[it.Name] = true
			fams[fam[idx]] = true
		}
	}
	verifrt.Assert(len(names) >= minTypes, "the launch list still meets the instance-type minValues floor under the strict policy")
	verifrt.Assert(len(fams) >= minFams, "the launch list still meets every other minValues floor under the strict policy")
}
