//go:build verif

// verif:dir pkg/scheduling
//
// C13 (requirements half) — the NodeClaim written to the API admits, key by key,
// exactly the label values the scheduler's in-memory requirements admit, and
// building it never panics for operands that pass validation (DESIGN §7 C13-1/2).
//
// verif:pure ^\(\*sigs\.k8s\.io/karpenter/pkg/scheduling\.Requirement\)\.(Has|Len|Operator)$
// verif:pure ^sigs\.k8s\.io/karpenter/pkg/scheduling\.(withinBounds|wRepInv)$
// verif:pure ^\(sigs\.k8s\.io/karpenter/pkg/scheduling\.wSpec\)\.admits$
// verif:assume C13: operands of Gt/Lt/Gte/Lte parse as integers >= 0 (v1.ValidateRequirement); In/NotIn lists are non-empty
// verif:assume C13: math/rand.Intn(n) returns an arbitrary value in [0,n) and panics for n <= 0 (its documented contract)

package scheduling

import (
	"strconv"

	corev1 "k8s.io/api/core/v1"
	"k8s.io/apimachinery/pkg/util/sets"

	v1 "sigs.k8s.io/karpenter/pkg/apis/v1"
	"sigs.k8s.io/karpenter/pkg/verifrt"
)

const wKey = "example.com/custom"

var wOps = []corev1.NodeSelectorOperator{
	corev1.NodeSelectorOpIn, corev1.NodeSelectorOpNotIn, corev1.NodeSelectorOpExists, corev1.NodeSelectorOpDoesNotExist,
	corev1.NodeSelectorOpGt, corev1.NodeSelectorOpLt, v1.NodeSelectorOpGte, v1.NodeSelectorOpLte,
}

type wSpec struct {
	op   int
	vals []string
	n    int
	raw  string
}

func wUniverse() []string {
	k := verifrt.Bound("atoms", 2, 3)
	u := make([]string, k)
	for i := range u {
		u[i] = verifrt.Atom(i)
	}
	return u
}

func wSubset(label string, u []string, min int) []string {
	mask := verifrt.Choice(label, min, (1<<len(u))-1)
	var out []string
	for i := range u {
		if mask&(1<<i) != 0 {
			out = append(out, u[i])
		}
	}
	return out
}

func wGen(tag string, u []string, operandAtom int) wSpec {
	s := wSpec{op: verifrt.Choice(tag+".op", 0, 7)}
	switch s.op {
	case 0, 1:
		s.vals = wSubset(tag+".vals", u, 1)
	case 4, 5, 6, 7:
		s.raw = verifrt.Atom(operandAtom)
		n, err := strconv.Atoi(s.raw)
		verifrt.Assume(err == nil && n >= 0)
		s.n = n
	}
	return s
}

func (s wSpec) expr(key string, minValues *int) v1.NodeSelectorRequirementWithMinValues {
	e := v1.NodeSelectorRequirementWithMinValues{Key: key, Operator: wOps[s.op], MinValues: minValues}
	switch s.op {
	case 0, 1:
		e.Values = append([]string{}, s.vals...)
	case 4, 5, 6, 7:
		e.Values = []string{s.raw}
	}
	return e
}

func (s wSpec) admits(w string) bool {
	in := false
	for _, x := range s.vals {
		if x == w {
			in = true
		}
	}
	switch s.op {
	case 0:
		return in
	case 1:
		return !in
	case 2:
		return true
	case 3:
		return false
	}
	x, err := strconv.Atoi(w)
	if err != nil {
		return false
	}
	switch s.op {
	case 4:
		return x > s.n
	case 5:
		return x < s.n
	case 6:
		return x >= s.n
	}
	return x <= s.n
}

func wRepInv(r *Requirement) bool {
	if (r.gte != nil || r.lte != nil) && !r.complement {
		return false
	}
	if r.gte != nil && r.lte != nil && *r.gte > *r.lte {
		return false
	}
	return r.values != nil
}

func wArb(tag string, u []string) *Requirement {
	r := &Requirement{Key: wKey, values: sets.New(wSubset(tag+".vals", u, 0)...)}
	r.complement = verifrt.Choice(tag+".complement", 0, 1) == 1
	if r.complement {
		if verifrt.Choice(tag+".gte", 0, 1) == 1 {
			g := verifrt.Int(tag + ".gteval")
			r.gte = &g
		}
		if verifrt.Choice(tag+".lte", 0, 1) == 1 {
			l := verifrt.Int(tag + ".lteval")
			r.lte = &l
		}
	}
	if verifrt.Choice(tag+".min", 0, 1) == 1 {
		m := verifrt.IntRange(tag+".minval", 0, 1000)
		r.MinValues = &m
	}
	verifrt.Assume(wRepInv(r))
	return r
}

func wPtrEq(a, b *int) bool {
	if a == nil || b == nil {
		return a == nil && b == nil
	}
	return *a == *b
}

// 1. serialise -> parse round trip from an arbitrary well-formed in-memory requirement
func VerifC13_SerializeRoundTrip() {
	u := wUniverse()
	r := wArb("r", u)
	// C13-F1: the exclusion list is not serialised when a bound is present
	verifrt.KnownFinding("C13-F1", r.complement && len(r.values) > 0 && (r.gte != nil || r.lte != nil))
	if r.gte != nil && r.lte != nil {
		verifrt.Reach("both-bounds")
	}
	R := Requirements{wKey: r}
	out := R.NodeSelectorRequirements()
	for _, e := range out {
		verifrt.Assert(e.Key == wKey, "serialised entries keep the key")
		verifrt.Assert(wPtrEq(e.MinValues, r.MinValues), "minValues is carried by every serialised entry")
	}
	back := NewNodeSelectorRequirementsWithMinValues(out...)
	verifrt.Assert(len(back) == 1 && back.Has(wKey), "the serialised list parses back to one requirement on the key")
	b := back.Get(wKey)
	for _, w := range append(append([]string{}, u...), verifrt.Atom(9)) {
		verifrt.Assert(b.Has(w) == r.Has(w), "the written NodeClaim requirement admits exactly the values the in-memory requirement admits")
	}
	verifrt.Assert(wPtrEq(b.MinValues, r.MinValues), "minValues survives the round trip")
}

// 2. the same from everything a validated NodePool/pod can write: one or two expressions on the key
func VerifC13_SerializeFromExpressions() {
	u := wUniverse()
	n := verifrt.Choice("n", 1, 2)
	var specs []wSpec
	var exprs []v1.NodeSelectorRequirementWithMinValues
	for i := 0; i < n; i++ {
		s := wGen("e"+strconv.Itoa(i), u, 10+i)
		specs = append(specs, s)
		exprs = append(exprs, s.expr(wKey, nil))
	}
	R := NewNodeSelectorRequirementsWithMinValues(exprs...)
	r := R.Get(wKey)
	verifrt.KnownFinding("C13-F1", r.complement && len(r.values) > 0 && (r.gte != nil || r.lte != nil))
	back := NewNodeSelectorRequirementsWithMinValues(R.NodeSelectorRequirements()...).Get(wKey)
	for _, w := range append(append([]string{}, u...), verifrt.Atom(9)) {
		all := true
		for _, s := range specs {
			a := s.admits(w)
			all = all && a
		}
		verifrt.Assert(back.Has(w) == all, "the written NodeClaim requirement admits exactly the values the NodePool's expressions admit")
	}
	if n == 2 {
		verifrt.Reach("two-expressions")
	}
}

// 3. Any() is total on validated input and returns an admitted value
func VerifC13_AnyTotal() {
	u := wUniverse()
	n := verifrt.Choice("n", 1, 2)
	var specs []wSpec
	var exprs []v1.NodeSelectorRequirementWithMinValues
	for i := 0; i < n; i++ {
		s := wGen("e"+strconv.Itoa(i), u, 10+i)
		specs = append(specs, s)
		exprs = append(exprs, s.expr(wKey, nil))
	}
	r := NewNodeSelectorRequirementsWithMinValues(exprs...).Get(wKey)
	// C13-F2: rand.Intn(0) / rand.Intn(negative) for an empty or overflowing integer range (Lt 0, Gte MaxInt64, Lte MaxInt64)
	empty := (r.lte != nil && r.gte == nil && *r.lte < 0) || (r.gte != nil && r.lte == nil && *r.gte == 9223372036854775807) ||
		(r.lte != nil && *r.lte == 9223372036854775807)
	verifrt.KnownFinding("C13-F2", r.complement && empty)
	// C13-F3: the value is drawn from the bounds only; the exclusion list is ignored
	verifrt.KnownFinding("C13-F3", r.complement && len(r.values) > 0)
	any := r.Any() // must not panic
	if r.complement {
		verifrt.Reach("co-finite")
	}
	if any != "" {
		verifrt.Assert(r.Has(any), "the label value chosen for a requirement is admitted by it")
	} else {
		// (Any produces canonical spellings of integers >= 0 — "-1" is not a valid label value — so other spellings of an
		// excluded integer and negative integers do not count as admitted label values here)
		for _, w := range append(append([]string{}, u...), verifrt.Atom(9)) {
			x, err := strconv.Atoi(w)
			if err != nil || (x >= 0 && x < 9223372036854775807 && strconv.Itoa(x) == w) { // Any draws from [0, MaxInt64)
				verifrt.Assert(!r.Has(w), "no label value is chosen only when nothing is admitted")
			}
		}
	}
}

// 4. the same for a small bounded range, where ignoring the exclusion list is not a 2^-63 coincidence
func VerifC13_AnyBoundedRange() {
	x := verifrt.Atom(0)
	xv, err := strconv.Atoi(x)
	g := verifrt.IntRange("g", 0, 1000)
	verifrt.Assume(err == nil && xv >= g && xv <= g+2)
	r := NewNodeSelectorRequirementsWithMinValues(
		v1.NodeSelectorRequirementWithMinValues{Key: wKey, Operator: v1.NodeSelectorOpGte, Values: []string{strconv.Itoa(g)}},
		v1.NodeSelectorRequirementWithMinValues{Key: wKey, Operator: v1.NodeSelectorOpLte, Values: []string{strconv.Itoa(g + 2)}},
		v1.NodeSelectorRequirementWithMinValues{Key: wKey, Operator: corev1.NodeSelectorOpNotIn, Values: []string{x}},
	).Get(wKey)
	verifrt.KnownFinding("C13-F3", r.complement && len(r.values) > 0)
	any := r.Any()
	verifrt.Assert(any != "" && r.Has(any), "the label value chosen for a bounded requirement with exclusions is admitted by it")
}
