//go:build verif

// verif:dir pkg/controllers/provisioning
//
// Shared world builder for the whole-pass harnesses: a real state.Cluster fed through its informer entry points, the
// API-client and cloud-provider models, and the real Provisioner. A pass is Provisioner.Schedule: GetPendingPods,
// NewScheduler (NodePool listing, instance types, topology, daemon overhead) and Scheduler.Solve.
// verif:nondeterministic the scheduler breaks ties between equally good domains, NodeClaims and instance types by Go map iteration order; a native run may take another admissible behaviour than the symbolic path
// verif:assume sample comparison against the real build is restricted to the verdict for these harnesses: the real code breaks ties by randomised map iteration order, the engine iterates in insertion order; violations are always confirmed natively

package provisioning

import (
	"context"
	"time"

	"github.com/awslabs/operatorpkg/status"
	corev1 "k8s.io/api/core/v1"
	"k8s.io/apimachinery/pkg/api/resource"
	metav1 "k8s.io/apimachinery/pkg/apis/meta/v1"
	k8stypes "k8s.io/apimachinery/pkg/types"

	v1 "sigs.k8s.io/karpenter/pkg/apis/v1"
	"sigs.k8s.io/karpenter/pkg/cloudprovider"
	scheduler "sigs.k8s.io/karpenter/pkg/controllers/provisioning/scheduling"
	"sigs.k8s.io/karpenter/pkg/controllers/state"
	opopts "sigs.k8s.io/karpenter/pkg/operator/options"
	"sigs.k8s.io/karpenter/pkg/scheduling"
	"sigs.k8s.io/karpenter/pkg/verifrt"
	"sigs.k8s.io/karpenter/pkg/verifrt/stubs"
)

type pwOffer struct {
	zone, ct    string
	price       float64
	available   bool
	overrideCPU string // when set, this offering's capacity override for cpu (a different allocatable group)
}

// cpuOf: the allocatable cpu a node launched into offering o of type t has.
func (t *pwType) cpuOf(o pwOffer) resource.Quantity {
	if o.overrideCPU != "" {
		return resource.MustParse(o.overrideCPU)
	}
	return t.cpu
}

type pwType struct {
	it     *cloudprovider.InstanceType
	offers []pwOffer
	cpu    resource.Quantity // allocatable cpu (no overhead is configured)
}

type pwWorld struct {
	ctx     context.Context
	now     time.Time
	clk     *stubs.Clock
	kc      *stubs.Client
	cp      *stubs.Provider
	cluster *state.Cluster
	rec     *stubs.Recorder
	prov    *Provisioner
	types   []*pwType
}

func pwNew(o *opopts.Options) *pwWorld {
	o.IgnoreDRARequests = true
	if o.MinValuesPolicy == "" {
		o.MinValuesPolicy = opopts.MinValuesPolicyStrict
	}
	if o.CPURequests == 0 {
		o.CPURequests = 1000
	}
	w := &pwWorld{ctx: opopts.ToContext(context.Background(), o), now: time.Unix(1700000000, 0)}
	w.clk = &stubs.Clock{Frozen: true}
	w.clk.Set(w.now)
	w.kc = &stubs.Client{Clock: w.clk}
	w.cp = stubs.ManagedProvider()
	w.cluster = state.NewCluster(w.clk, w.kc, w.cp)
	w.rec = &stubs.Recorder{}
	w.prov = NewProvisioner(w.kc, w.rec, w.cp, w.cluster, w.clk, nil, nil)
	return w
}

func pwList(cpu resource.Quantity) corev1.ResourceList {
	return corev1.ResourceList{corev1.ResourceCPU: cpu, corev1.ResourceMemory: resource.MustParse("64Gi"), corev1.ResourcePods: resource.MustParse("110")}
}

func (w *pwWorld) addType(name string, cpu resource.Quantity, offers []pwOffer) *pwType {
	t := &pwType{cpu: cpu, offers: offers}
	var ofs cloudprovider.Offerings
	zones, cts := map[string]bool{}, map[string]bool{}
	var zs, cs []string
	for _, o := range offers {
		of := &cloudprovider.Offering{Available: o.available, Price: o.price, Requirements: scheduling.NewRequirements(
			scheduling.NewRequirement(corev1.LabelTopologyZone, corev1.NodeSelectorOpIn, o.zone),
			scheduling.NewRequirement(v1.CapacityTypeLabelKey, corev1.NodeSelectorOpIn, o.ct),
		)}
		if o.overrideCPU != "" {
			of.CapacityOverride = corev1.ResourceList{corev1.ResourceCPU: resource.MustParse(o.overrideCPU)}
		}
		ofs = append(ofs, of)
		if !zones[o.zone] {
			zones[o.zone] = true
			zs = append(zs, o.zone)
		}
		if !cts[o.ct] {
			cts[o.ct] = true
			cs = append(cs, o.ct)
		}
	}
	t.it = &cloudprovider.InstanceType{
		Name: name,
		Requirements: scheduling.NewRequirements(
			scheduling.NewRequirement(corev1.LabelInstanceTypeStable, corev1.NodeSelectorOpIn, name),
			scheduling.NewRequirement(corev1.LabelTopologyZone, corev1.NodeSelectorOpIn, zs...),
			scheduling.NewRequirement(v1.CapacityTypeLabelKey, corev1.NodeSelectorOpIn, cs...),
			scheduling.NewRequirement(corev1.LabelArchStable, corev1.NodeSelectorOpIn, "amd64"),
			scheduling.NewRequirement(corev1.LabelOSStable, corev1.NodeSelectorOpIn, "linux"),
		),
		Offerings: ofs,
		Capacity:  pwList(cpu),
		Overhead:  &cloudprovider.InstanceTypeOverhead{},
	}
	w.types = append(w.types, t)
	w.cp.InstanceTypes = append(w.cp.InstanceTypes, t.it)
	return t
}

func (w *pwWorld) typeOf(it *cloudprovider.InstanceType) *pwType {
	for _, t := range w.types {
		if t.it == it {
			return t
		}
	}
	return nil
}

func (w *pwWorld) addPool(name string, weight int32) *v1.NodePool {
	np := &v1.NodePool{}
	np.Name = name
	np.UID = k8stypes.UID("uid-" + name)
	np.Spec.Template.Spec.NodeClassRef = &v1.NodeClassReference{Group: stubs.NodeClassGroup, Kind: stubs.NodeClassKind, Name: "default"}
	if weight != 0 {
		np.Spec.Weight = &weight
	}
	np.StatusConditions().SetTrue(status.ConditionReady)
	w.kc.Pools = append(w.kc.Pools, np)
	return np
}

// stages of an existing node's life
const (
	pwLaunched    = iota // NodeClaim with provider id and resolved capacity, no Node yet
	pwRegistered         // Node has joined, not initialized
	pwInitialized        // Node initialized
)

// addNode: alloc is what the provider resolved for the NodeClaim; kubelet (optional) is what the Node object reports
// itself, which may lag behind until the node is initialized.
func (w *pwWorld) addNode(name, pool, itName, ct, zone string, alloc corev1.ResourceList, stage int, kubelet ...corev1.ResourceList) (*corev1.Node, *v1.NodeClaim) {
	pid := "verif://" + name
	labels := map[string]string{
		corev1.LabelInstanceTypeStable: itName, v1.CapacityTypeLabelKey: ct, corev1.LabelTopologyZone: zone,
		v1.NodePoolLabelKey: pool, corev1.LabelArchStable: "amd64", corev1.LabelOSStable: "linux",
	}
	nc := stubs.NodeClaim("claim-" + name)
	for k, v := range labels {
		nc.Labels[k] = v
	}
	nc.Status.ProviderID = pid
	nc.Status.Capacity, nc.Status.Allocatable = alloc, alloc
	nc.CreationTimestamp = metav1.Time{Time: w.now.Add(-time.Hour)}
	stubs.SetCondition(nc, v1.ConditionTypeLaunched, metav1.ConditionTrue, w.now.Add(-time.Hour))
	var node *corev1.Node
	if stage >= pwRegistered {
		node = stubs.Node(name, pid, corev1.ConditionTrue)
		node.Labels = map[string]string{corev1.LabelHostname: name, v1.NodeRegisteredLabelKey: "true"}
		for k, v := range labels {
			node.Labels[k] = v
		}
		node.Status.Capacity, node.Status.Allocatable = alloc, alloc
		if len(kubelet) > 0 {
			node.Status.Capacity, node.Status.Allocatable = kubelet[0], kubelet[0]
		}
		nc.Status.NodeName = name
		stubs.SetCondition(nc, v1.ConditionTypeRegistered, metav1.ConditionTrue, w.now.Add(-time.Hour))
		if stage >= pwInitialized {
			node.Labels[v1.NodeInitializedLabelKey] = "true"
			stubs.SetCondition(nc, v1.ConditionTypeInitialized, metav1.ConditionTrue, w.now.Add(-time.Hour))
		}
		w.kc.Nodes = append(w.kc.Nodes, node)
	}
	w.kc.Claims = append(w.kc.Claims, nc)
	w.cluster.UpdateNodeClaim(nc)
	if node != nil {
		verifrt.Assert(w.cluster.UpdateNode(w.ctx, node) == nil, "the node is accepted by cluster state")
	}
	return node, nc
}

func (w *pwWorld) addPod(name, nodeName string, cpu resource.Quantity) *corev1.Pod {
	p := &corev1.Pod{}
	p.Name, p.Namespace = name, "default"
	p.UID = k8stypes.UID("uid-" + name)
	p.CreationTimestamp = metav1.Time{Time: w.now.Add(-time.Minute)}
	p.OwnerReferences = []metav1.OwnerReference{{APIVersion: "apps/v1", Kind: "ReplicaSet", Name: "rs"}}
	p.Spec.Containers = []corev1.Container{{Name: "main", Resources: corev1.ResourceRequirements{Requests: corev1.ResourceList{corev1.ResourceCPU: cpu}}}}
	if nodeName == "" {
		p.Status.Phase = corev1.PodPending
		p.Status.Conditions = []corev1.PodCondition{{Type: corev1.PodScheduled, Status: corev1.ConditionFalse, Reason: corev1.PodReasonUnschedulable}}
	} else {
		p.Spec.NodeName = nodeName
		p.Status.Phase = corev1.PodRunning
		p.Status.Conditions = []corev1.PodCondition{{Type: corev1.PodScheduled, Status: corev1.ConditionTrue}}
	}
	w.kc.Pods = append(w.kc.Pods, p)
	return p
}

// deliver hands every stored pod to the cluster state (after the nodes), as the pod informer would.
func (w *pwWorld) deliver() {
	for _, p := range w.kc.Pods {
		verifrt.Assert(w.cluster.UpdatePod(w.ctx, p) == nil, "the pod is accepted by cluster state")
	}
}

type pwPlacement struct {
	existing string              // node or NodeClaim name of the existing capacity, or ""
	claim    *scheduler.NodeClaim // the new NodeClaim, or nil
	err      error
}

func pwFind(r scheduler.Results, uid k8stypes.UID) (pl pwPlacement, n int) {
	for _, en := range r.ExistingNodes {
		for _, q := range en.Pods {
			if q.UID == uid {
				pl.existing = en.Name()
				n++
			}
		}
	}
	for _, nc := range r.NewNodeClaims {
		for _, q := range nc.Pods {
			if q.UID == uid {
				pl.claim = nc
				n++
			}
		}
	}
	for q, e := range r.PodErrors {
		if q.UID == uid {
			pl.err = e
		}
	}
	return pl, n
}
