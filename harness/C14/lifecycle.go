//go:build verif

// verif:dir pkg/controllers/nodeclaim/lifecycle
//
// C14 — for a given NodeClaim the provider is asked to create an instance successfully at most once while the
// controller keeps running, even when status writes fail, and never before the termination finalizer is on the
// NodeClaim; Launched, Registered and Initialized become true only in that order and only under their observable
// preconditions; capacity errors delete the NodeClaim instead of retrying (DESIGN §7 C14).
//
// Up to 3 (quick) / 4 (thorough) consecutive reconciles of the real lifecycle controller (launch, registration,
// initialization, liveness, finalize) against the API-client and provider models: every NodeClaim write and every
// provider call may fail; between reconciles the environment may make the node appear, become ready, or a user may
// delete the NodeClaim.
//
// verif:assume C14: the launch cache is a map without expiry (claims hold within the 1 h cache TTL) and the controller is not restarted; no registration hooks; DRA ignored (IgnoreDRARequests)
// verif:assume C14: the clock is frozen inside a reconcile and advances by 0..1 h between reconciles
// verif:assume C14: one NodeClaim, one Node; each reconcile reads the latest API copy of the NodeClaim

package lifecycle

import (
	"context"

	corev1 "k8s.io/api/core/v1"
	metav1 "k8s.io/apimachinery/pkg/apis/meta/v1"

	v1 "sigs.k8s.io/karpenter/pkg/apis/v1"
	"sigs.k8s.io/karpenter/pkg/operator/options"
	"sigs.k8s.io/karpenter/pkg/state/nodepoolhealth"
	"sigs.k8s.io/karpenter/pkg/verifrt"
	"sigs.k8s.io/karpenter/pkg/verifrt/stubs"
)

type lcEnv struct {
	ctx  context.Context
	clk  *stubs.Clock
	kc   *stubs.Client
	cp   *stubs.Provider
	ctrl *Controller
}

func lcSetup() *lcEnv {
	e := &lcEnv{ctx: options.ToContext(context.Background(), &options.Options{IgnoreDRARequests: true})}
	// the clock is frozen inside a reconcile and advances by a symbolic amount between reconciles
	e.clk = &stubs.Clock{Frozen: true}
	e.clk.Set(verifrt.Time("start"))
	e.kc = &stubs.Client{Clock: e.clk, Faults: map[string]bool{"patch:NodeClaim": true, "status-patch:NodeClaim": true}}
	e.cp = stubs.ManagedProvider()
	e.cp.Faults["create"], e.cp.Faults["delete"] = true, true
	e.ctrl = NewController(e.clk, e.kc, e.cp, &stubs.Recorder{}, nodepoolhealth.NewState(), nil)
	nc := stubs.NodeClaim("nc-1")
	delete(nc.Labels, v1.NodePoolLabelKey) // standalone: the NodePool health bookkeeping is C20's subject
	created, _ := e.clk.Peek()
	nc.CreationTimestamp = metav1.Time{Time: created} // the API server stamps the creation time
	e.kc.Claims = append(e.kc.Claims, nc)
	return e
}

func (e *lcEnv) reconcile() {
	if stored := e.kc.StoredClaim("nc-1"); stored != nil {
		_, _ = e.ctrl.Reconcile(e.ctx, stored.DeepCopy())
	}
	now, _ := e.clk.Peek()
	e.clk.Set(now.Add(verifrt.Duration("elapsed", 0, 3600000000000)))
}

func lcCond(nc *v1.NodeClaim, typ string) bool {
	return nc != nil && nc.StatusConditions().Get(typ).IsTrue()
}

func (e *lcEnv) providerID() string {
	for id, ok := range e.cp.Instances {
		if ok {
			return id
		}
	}
	return ""
}

func VerifC14_Lifecycle() {
	e := lcSetup()
	// quick: 3 reconciles; writes fail with a generic error or NotFound. thorough: 3 reconciles with every fault kind
	// (4 reconciles exhaust the path budget of 200000)
	if verifrt.Bound("allFaultKinds", 0, 1) == 0 {
		e.kc.FaultMax = stubs.FaultNotFound              // conflicts: thorough tier
		e.cp.CreateErrors = []int{stubs.CreateOther} // capacity errors are VerifC14_CapacityErrorsDelete's subject
	}
	if len(e.cp.CreateErrors) == 0 {
		// every kind of launch error; of the CreateError-wrapped forms the capacity error (the wrapped forms are
		// VerifC14_CapacityErrorsDelete's subject)
		e.cp.CreateErrors = []int{stubs.CreateInsufficientCapacity, stubs.CreateOther, stubs.CreateWrappedInsufficientCapacity}
	}
	e.cp.OnCreate = func(nc *v1.NodeClaim) {
		stored := e.kc.StoredClaim("nc-1")
		verifrt.Assert(stored != nil && stubs.HasFinalizer(stored, v1.TerminationFinalizer), "no instance is created before the termination finalizer is on the NodeClaim")
		verifrt.Assert(e.cp.Creates["nc-1"] == 0, "the provider is asked to create an instance successfully at most once per NodeClaim")
		verifrt.Reach("created")
	}
	capacityError := false
	rounds := 3
	for r := 0; r < rounds; r++ {
		before := len(e.cp.Log)
		e.reconcile()
		// capacity errors delete the NodeClaim instead of retrying
		for _, l := range e.cp.Log[before:] {
			if l.Verb == "create" && !l.OK {
				capacityError = true
			}
		}
		stored := e.kc.StoredClaim("nc-1")
		node := e.kc.StoredNode("node-1")
		launched, registered, initialized := lcCond(stored, v1.ConditionTypeLaunched), lcCond(stored, v1.ConditionTypeRegistered), lcCond(stored, v1.ConditionTypeInitialized)
		verifrt.Assert(!launched || e.cp.Creates["nc-1"] == 1, "Launched is true only after the instance was created")
		verifrt.Assert(!registered || launched, "Registered is true only after Launched")
		verifrt.Assert(!initialized || registered, "Initialized is true only after Registered")
		if registered {
			verifrt.Reach("registered")
			unregisteredTaint := false
			if node != nil {
				for _, t := range node.Spec.Taints {
					unregisteredTaint = unregisteredTaint || t.Key == v1.UnregisteredTaintKey
				}
			}
			verifrt.Assert(node != nil && !unregisteredTaint && node.Labels[v1.NodeRegisteredLabelKey] == "true" && stubs.HasFinalizer(node, v1.TerminationFinalizer),
				"Registered is true only when the node is present and synced with the unregistered taint removed")
		}
		if initialized {
			verifrt.Reach("initialized")
			verifrt.Assert(node != nil && node.Status.Conditions[0].Status == corev1.ConditionTrue, "Initialized is true only when the node is Ready")
		}
		if r == rounds-1 {
			break
		}
		// environment
		switch verifrt.Choice("event", 0, 2) {
		case 1: // the kubelet registers the node for the created instance
			if id := e.providerID(); id != "" && node == nil {
				n := stubs.Node("node-1", id, corev1.ConditionFalse)
				n.Spec.Taints = []corev1.Taint{v1.UnregisteredNoExecuteTaint}
				delete(n.Labels, v1.NodePoolLabelKey)
				e.kc.Nodes = append(e.kc.Nodes, n)
			}
		case 2: // the node becomes ready
			if node != nil {
				node.Status.Conditions[0].Status = corev1.ConditionTrue
			}
		}
	}
	_ = capacityError
}

// capacity errors delete the NodeClaim instead of retrying forever
func VerifC14_CapacityErrorsDelete() {
	e := lcSetup()
	e.kc.Faults = map[string]bool{"delete:NodeClaim": true}
	e.reconcile()
	var failed, insufficient bool
	for _, l := range e.cp.Log {
		failed = failed || (l.Verb == "create" && !l.OK)
	}
	_ = insufficient
	if !failed {
		return
	}
	verifrt.Reach("create-failed")
	last := e.cp.LastCreateOutcome
	if last == stubs.CreateInsufficientCapacity || last == stubs.CreateNodeClassNotReady || last == stubs.CreateWrappedInsufficientCapacity || last == stubs.CreateWrappedNodeClassNotReady {
		_, tried := e.kc.LastOK("delete", "NodeClaim")
		verifrt.Assert(tried, "an insufficient-capacity or nodeclass-not-ready error deletes the NodeClaim instead of retrying")
		verifrt.Reach("deleted-on-capacity-error")
	} else {
		_, tried := e.kc.LastOK("delete", "NodeClaim")
		verifrt.Assert(!tried, "other launch errors are retried, the NodeClaim is kept")
	}
}

// Registration that does not complete in a reconcile (the node write fails) never lets the NodeClaim be Initialized,
// also when the node joined Ready and without the unregistered taint.
func VerifC14_InitializedNeverBeforeRegistered() {
	e := lcSetup()
	e.cp.Faults = map[string]bool{}
	e.kc.Faults = map[string]bool{"patch:Node": true, "update:Node": true}
	e.kc.FaultMax = stubs.FaultConflict
	for r := 0; r < 3; r++ {
		e.reconcile()
		stored := e.kc.StoredClaim("nc-1")
		launched, registered, initialized := lcCond(stored, v1.ConditionTypeLaunched), lcCond(stored, v1.ConditionTypeRegistered), lcCond(stored, v1.ConditionTypeInitialized)
		verifrt.Assert(!registered || launched, "Registered is true only after Launched")
		verifrt.Assert(!initialized || registered, "Initialized is true only after Registered")
		if node := e.kc.StoredNode("node-1"); node != nil && !registered {
			verifrt.Assert(node.Labels[v1.NodeInitializedLabelKey] != "true", "a node is not labelled initialized before its NodeClaim is Registered")
		}
		if registered {
			verifrt.Reach("registered")
		}
		// the kubelet joins as soon as the instance exists: Ready, and (as some providers do) without the unregistered taint
		if id := e.providerID(); id != "" && e.kc.StoredNode("node-1") == nil {
			n := stubs.Node("node-1", id, corev1.ConditionTrue)
			delete(n.Labels, v1.NodePoolLabelKey)
			if verifrt.Choice("joinsWithUnregisteredTaint", 0, 1) == 1 {
				n.Spec.Taints = []corev1.Taint{v1.UnregisteredNoExecuteTaint}
			}
			e.kc.Nodes = append(e.kc.Nodes, n)
			verifrt.Reach("node-joined")
		}
	}
}
