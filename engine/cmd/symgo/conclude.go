package main

import (
	"encoding/json"
	"fmt"
	"os"
	"os/exec"
	"path/filepath"
	"reflect"
	"regexp"
	"sort"
	"strings"
	"time"

	"symgo/interp"
)

type replayCase struct {
	ID      int            `json:"id"`
	Harness string         `json:"harness"`
	Inputs  map[string]any `json:"inputs"`
	// not serialised for the native side
	vio    *interp.Violation
	sample *interp.PathSample
}

type nativeResult struct {
	ID        int      `json:"id"`
	Harness   string   `json:"harness"`
	Ran       bool     `json:"ran"`
	Failed    bool     `json:"failed"`
	FailMsg   string   `json:"fail_msg"`
	Panicked  bool     `json:"panicked"`
	PanicMsg  string   `json:"panic_msg"`
	Assumed   bool     `json:"assume_false"`
	Asserts   int      `json:"asserts"`
	Reach     []string `json:"reach"`
	Observes  []string `json:"observes"`
	Missing   []string `json:"missing_inputs"`
	Findings  []string `json:"findings"`
	ExpectPan bool     `json:"expect_panic"`
}

func (r *run) conclude(ld *loaded, files []harnessFile, results []*interp.HarnessResult, loadTime time.Duration) int {
	var inconclusive []string
	var cases []*replayCase
	id := 0
	for _, res := range results {
		for _, m := range res.Inconclusive {
			inconclusive = append(inconclusive, res.Name+": "+firstLines(m, 3))
		}
		// vacuity: every Reach label and every Assert site of the harness must be reached on some path
		for _, lbl := range ld.reachLabels[res.Name] {
			if res.Stats.Reach[lbl] == 0 {
				inconclusive = append(inconclusive, fmt.Sprintf("%s: vacuous — Reach(%q) was never reached", res.Name, lbl))
			}
		}
		for _, site := range ld.assertSites[res.Name] {
			if res.Stats.AssertSite[site] == 0 {
				inconclusive = append(inconclusive, fmt.Sprintf("%s: vacuous — assertion at %s was never reached", res.Name, site))
			}
		}
		if res.Stats.Outcomes["ok"]+res.Stats.Outcomes["panic"]+res.Stats.Outcomes["assert_failed"]+res.Stats.Outcomes["expected_panic"] == 0 {
			inconclusive = append(inconclusive, fmt.Sprintf("%s: vacuous — no path ran to completion (outcomes %v)", res.Name, res.Stats.Outcomes))
		}
		if n := res.Stats.Outcomes["fuse"]; n > 0 {
			inconclusive = append(inconclusive, fmt.Sprintf("%s: instruction fuse hit on %d paths (bound too small)", res.Name, n))
		}
		if res.Stats.Solver.Errors > 0 {
			inconclusive = append(inconclusive, fmt.Sprintf("%s: %d solver error responses", res.Name, res.Stats.Solver.Errors))
		}
		for _, v := range res.Violations {
			id++
			cases = append(cases, &replayCase{ID: id, Harness: res.Name, Inputs: v.Model, vio: v})
		}
		for k := range res.Samples {
			id++
			cases = append(cases, &replayCase{ID: id, Harness: res.Name, Inputs: res.Samples[k].Model, sample: &res.Samples[k]})
		}
	}

	// native replays
	nondet := r.nondeterministicHarnesses(files)
	tieBreakNotes := 0
	validated, disagreements := 0, 0
	confirmedNew := []*replayCase{}
	confirmedKnown := map[string]*replayCase{}
	var natives map[int]*nativeResult
	replayWall := time.Duration(0)
	if !r.noReplay && len(cases) > 0 {
		t0 := time.Now()
		var err error
		natives, err = r.nativeReplay(ld, files, cases)
		replayWall = time.Since(t0)
		if err != nil {
			inconclusive = append(inconclusive, "native replay failed: "+firstLines(err.Error(), 8))
		}
	}
	// The real code is not always deterministic (Go randomises map iteration order; the engine iterates in insertion
	// order): a case whose first native run disagrees with the symbolic path is re-run a few times, and it counts as
	// reproduced / agreeing as soon as one native run shows the behaviour of the symbolic path.
	if !r.noReplay && natives != nil {
		for attempt := 0; attempt < 12; attempt++ {
			var again []*replayCase
			for _, c := range cases {
				n := natives[c.ID]
				if n == nil || !n.Ran || usesRand(c.Inputs) {
					continue
				}
				if c.vio != nil {
					if !(n.Failed || (n.Panicked && !n.ExpectPan)) && c.vio.Kind != "frame" {
						again = append(again, c)
					}
				} else if compareSample(c.sample, n) != "" {
					again = append(again, c)
				}
			}
			if len(again) == 0 {
				break
			}
			t0 := time.Now()
			more, err := r.nativeReplay(ld, files, again)
			replayWall += time.Since(t0)
			if err != nil {
				break
			}
			for _, c := range again {
				m := more[c.ID]
				if m == nil || !m.Ran {
					continue
				}
				if c.vio != nil {
					if m.Failed || (m.Panicked && !m.ExpectPan) {
						natives[c.ID] = m
					}
				} else if compareSample(c.sample, m) == "" {
					natives[c.ID] = m
				}
			}
		}
	}
	for _, c := range cases {
		n := natives[c.ID]
		if c.vio != nil {
			switch {
			case r.noReplay:
				inconclusive = append(inconclusive, fmt.Sprintf("%s: candidate violation %q at %s not replayed (-no-replay) stack=%v", c.Harness, c.vio.Msg, c.vio.Pos, c.vio.Stack))
			case n == nil || !n.Ran:
				inconclusive = append(inconclusive, fmt.Sprintf("%s: candidate violation %q at %s: no native result", c.Harness, c.vio.Msg, c.vio.Pos))
			case n.Failed || (n.Panicked && !n.ExpectPan):
				// reproduces against the real build; classify by the signatures evaluated natively
				knownID := ""
				for _, f := range n.Findings {
					if r.cfg.KnownStatus[f] == "known" && (knownID == "" || f == c.vio.Finding) {
						knownID = f
					}
				}
				if knownID != "" {
					if confirmedKnown[knownID] == nil {
						confirmedKnown[knownID] = c
					}
				} else {
					confirmedNew = append(confirmedNew, c)
				}
				validated++
			case c.vio.Kind == "frame":
				// write-set violations have no native oracle other than the harness's own snapshot assertion
				inconclusive = append(inconclusive, fmt.Sprintf("%s: frame violation at %s did not fail natively", c.Harness, c.vio.Pos))
			case c.vio.Finding != "" && usesRand(c.Inputs):
				// a model of an already listed finding that needs one specific math/rand draw cannot be forced natively;
				// the finding is confirmed (or not) through its other models
			default:
				disagreements++
				inconclusive = append(inconclusive, fmt.Sprintf("%s: solver model for %q at %s does not reproduce against the real build (encoder or stub mismatch) (inputs %s)", c.Harness, c.vio.Msg, c.vio.Pos, compactModel(c.Inputs)))
			}
			continue
		}
		if n == nil || r.noReplay {
			continue
		}
		if usesRand(c.Inputs) {
			continue // the outcome of math/rand cannot be forced natively; such paths are not used for translation validation
		}
		if why := compareSample(c.sample, n); why != "" {
			if softDisagreement(why) && nondet[c.Harness] {
				// same verdict, another admissible behaviour of order-dependent real code
				tieBreakNotes++
				continue
			}
			disagreements++
			inconclusive = append(inconclusive, fmt.Sprintf("%s: translation validation disagrees: %s (inputs %v)", c.Harness, why, compactModel(c.Inputs)))
		} else {
			validated++
		}
	}

	// verdict lines
	exit := 0
	var knownIDs []string
	for id := range confirmedKnown {
		knownIDs = append(knownIDs, id)
	}
	sort.Strings(knownIDs)
	for _, id := range knownIDs {
		c := confirmedKnown[id]
		what := id
		for _, k := range r.known {
			if k.ID == id {
				what = id + " " + k.What
			}
		}
		dir := r.saveReplay(ld, files, c, id)
		fmt.Printf("KNOWN-FINDING: property=%s %s [harness=%s replay=%s]\n", r.prop, what, c.Harness, dir)
	}
	for _, k := range r.known {
		if k.Status == "known" && confirmedKnown[k.ID] == nil {
			fmt.Printf("NOTE: known finding %s did not reproduce on this tree\n", k.ID)
		}
	}
	for n, c := range confirmedNew {
		dir := r.saveReplay(ld, files, c, fmt.Sprintf("v%d", n+1))
		fmt.Printf("VIOLATION property=%s replay=%s\n", r.prop, dir)
		fmt.Printf("  harness=%s kind=%s at %s: %s\n  inputs=%s\n", c.Harness, c.vio.Kind, c.vio.Pos, firstLines(c.vio.Msg, 2), compactModel(c.Inputs))
		exit = 1
	}
	if exit == 0 && len(inconclusive) > 0 {
		exit = 2
	}
	sort.Strings(inconclusive)
	inconclusive = dedupe(inconclusive)
	for k, m := range inconclusive {
		if k < 15 {
			fmt.Printf("INCONCLUSIVE property=%s reason=%s\n", r.prop, m)
		}
	}
	if !r.noEvidence {
		r.tieBreakNotes = tieBreakNotes
		r.writeEvidence(ld, results, cases, validated, disagreements, len(confirmedNew), knownIDs, inconclusive, loadTime, replayWall)
	}
	return exit
}

func usesRand(m map[string]any) bool {
	for k := range m {
		if strings.HasPrefix(k, "rand#") || strings.HasPrefix(k, "randf#") {
			return true
		}
	}
	return false
}

func compactModel(m map[string]any) string {
	b, _ := json.Marshal(m)
	s := string(b)
	if len(s) > 600 {
		s = s[:600] + "…"
	}
	return s
}

// softDisagreement: the native run and the symbolic path agree on the verdict (both complete without a failed
// assertion) and differ only in how many assertions / marks / observations they pass through.
func softDisagreement(why string) bool {
	for _, p := range []string{"assert count differs", "reach marks differ", "observations differ", "native run asked for inputs"} {
		if strings.HasPrefix(why, p) {
			return true
		}
	}
	return false
}

// nondeterministicHarnesses: harnesses defined in a file that carries `// verif:nondeterministic <reason>`: the real
// code under them breaks ties by Go's randomised map iteration order, so a native run may legitimately take another
// of the admissible behaviours than the symbolic path (which iterates in insertion order).
func (r *run) nondeterministicHarnesses(files []harnessFile) map[string]bool {
	out := map[string]bool{}
	fnRe := regexp.MustCompile(`(?m)^func (Verif\w+)\(`)
	funcs := map[string][]string{} // package dir -> harness functions
	shared := map[string]bool{}    // package dirs whose shared (harness-less) file carries the directive
	for _, f := range files {
		b, err := os.ReadFile(f.path)
		if err != nil {
			continue
		}
		var names []string
		for _, m := range fnRe.FindAllStringSubmatch(string(b), -1) {
			names = append(names, m[1])
		}
		funcs[f.pkgDir] = append(funcs[f.pkgDir], names...)
		if !strings.Contains(string(b), "// verif:nondeterministic") {
			continue
		}
		if len(names) == 0 {
			shared[f.pkgDir] = true // a shared world builder: applies to every harness built on it
		}
		for _, n := range names {
			out[n] = true
		}
	}
	for dir := range shared {
		for _, n := range funcs[dir] {
			out[n] = true
		}
	}
	return out
}

func compareSample(s *interp.PathSample, n *nativeResult) string {
	if !n.Ran {
		return "native run did not execute the case"
	}
	if len(n.Missing) > 0 {
		return fmt.Sprintf("native run asked for inputs the symbolic path never created: %v", n.Missing)
	}
	switch s.Outcome {
	case "ok":
		if n.Failed || n.Panicked || n.Assumed {
			return fmt.Sprintf("symbolic path completed, native run failed=%v panicked=%v assume_false=%v (%s%s)", n.Failed, n.Panicked, n.Assumed, n.FailMsg, firstLines(n.PanicMsg, 2))
		}
	case "panic", "expected_panic":
		if !n.Panicked && !n.Failed {
			return "symbolic path panicked, native run did not"
		}
		return ""
	}
	if n.Asserts != s.Asserts {
		return fmt.Sprintf("assert count differs: symbolic %d, native %d", s.Asserts, n.Asserts)
	}
	if !reflect.DeepEqual(append([]string{}, s.Reach...), append([]string{}, n.Reach...)) {
		return fmt.Sprintf("reach marks differ: symbolic %v, native %v", s.Reach, n.Reach)
	}
	var so []string
	for _, o := range s.Observes {
		so = append(so, o.Label+"="+o.Value)
	}
	if !reflect.DeepEqual(append([]string{}, so...), append([]string{}, n.Observes...)) {
		return fmt.Sprintf("observations differ: symbolic %v, native %v", so, n.Observes)
	}
	return ""
}

// ---- native replay ----

func pkgNameOf(ld *loaded, harness string) string {
	for _, h := range ld.harnesses {
		if h.Name() == harness {
			return h.Pkg.Pkg.Name()
		}
	}
	return ""
}

func (r *run) buildReplayOverlay(ld *loaded, files []harnessFile, dir string) (overlayPath string, pkgPatterns []string, err error) {
	repl := map[string]string{}
	repl[filepath.Join(r.repo, "pkg", "verifrt", "verifrt.go")] = filepath.Join(r.verif, "rt", "verifrt.go")
	for virt, real := range rtExtraFiles(r) {
		repl[virt] = real
	}
	for _, f := range files {
		repl[f.virt] = f.path
	}
	byDir := map[string][]string{}
	for _, h := range ld.harnesses {
		d := ld.harnessPkg[h.Name()]
		byDir[d] = append(byDir[d], h.Name())
	}
	for d, names := range byDir {
		sort.Strings(names)
		var b strings.Builder
		fmt.Fprintf(&b, "//go:build verif\n\npackage %s\n\nimport (\n\t\"testing\"\n\n\t\"sigs.k8s.io/karpenter/pkg/verifrt\"\n)\n\n", pkgNameOf(ld, names[0]))
		fmt.Fprintf(&b, "func TestVerifReplay(t *testing.T) {\n\tverifrt.RunReplay(t, map[string]func(){\n")
		for _, n := range names {
			fmt.Fprintf(&b, "\t\t%q: %s,\n", n, n)
		}
		fmt.Fprintf(&b, "\t})\n}\n")
		tf := filepath.Join(dir, "replay_"+strings.ReplaceAll(d, "/", "_")+"_test.go")
		if err := os.WriteFile(tf, []byte(b.String()), 0o644); err != nil {
			return "", nil, err
		}
		repl[filepath.Join(r.repo, d, "zz_verif_replay_test.go")] = tf
		pkgPatterns = append(pkgPatterns, "./"+d)
	}
	sort.Strings(pkgPatterns)
	ob, _ := json.MarshalIndent(map[string]any{"Replace": repl}, "", " ")
	overlayPath = filepath.Join(dir, "overlay.json")
	return overlayPath, pkgPatterns, os.WriteFile(overlayPath, ob, 0o644)
}

func (r *run) goTest(dir, overlay string, pkgs []string, casesPath, outPath string) ([]byte, error) {
	args := append([]string{"test", "-tags=verif", "-vet=off", "-count=1", "-timeout=20m", "-overlay", overlay, "-run", "^TestVerifReplay$"}, pkgs...)
	cmd := exec.Command("/opt/veriftools/go1.26.8/bin/go", args...)
	cmd.Dir = r.repo
	cmd.Env = append(goEnv(), "VERIF_REPLAY_CASES="+casesPath, "VERIF_REPLAY_OUT="+outPath)
	return cmd.CombinedOutput()
}

func (r *run) nativeReplay(ld *loaded, files []harnessFile, cases []*replayCase) (map[int]*nativeResult, error) {
	dir, err := os.MkdirTemp(filepath.Join(r.verif, "replays"), "run-")
	if err != nil {
		os.MkdirAll(filepath.Join(r.verif, "replays"), 0o755)
		if dir, err = os.MkdirTemp(filepath.Join(r.verif, "replays"), "run-"); err != nil {
			return nil, err
		}
	}
	defer os.RemoveAll(dir)
	overlay, pkgs, err := r.buildReplayOverlay(ld, files, dir)
	if err != nil {
		return nil, err
	}
	cb, _ := json.Marshal(cases)
	casesPath := filepath.Join(dir, "cases.json")
	if err := os.WriteFile(casesPath, cb, 0o644); err != nil {
		return nil, err
	}
	outPath := filepath.Join(dir, "out.json")
	out, err := r.goTest(dir, overlay, pkgs, casesPath, outPath)
	natives := map[int]*nativeResult{}
	matches, _ := filepath.Glob(outPath + ".*")
	for _, m := range matches {
		b, rerr := os.ReadFile(m)
		if rerr != nil {
			continue
		}
		var rs []nativeResult
		if json.Unmarshal(b, &rs) == nil {
			for k := range rs {
				natives[rs[k].ID] = &rs[k]
			}
		}
	}
	if err != nil && len(natives) == 0 {
		return natives, fmt.Errorf("go test: %v\n%s", err, tail(string(out), 30))
	}
	if r.verbose {
		fmt.Fprintf(os.Stderr, "native replay: %d cases, %d results\n%s\n", len(cases), len(natives), tail(string(out), 10))
	}
	return natives, nil
}

func tail(s string, n int) string {
	lines := strings.Split(strings.TrimRight(s, "\n"), "\n")
	if len(lines) > n {
		lines = lines[len(lines)-n:]
	}
	return strings.Join(lines, "\n")
}

// saveReplay keeps everything needed to re-run one confirmed case.
func (r *run) saveReplay(ld *loaded, files []harnessFile, c *replayCase, tag string) string {
	dir := filepath.Join(r.verif, "replays", r.prop, c.Harness+"-"+tag)
	os.RemoveAll(dir)
	if err := os.MkdirAll(dir, 0o755); err != nil {
		return dir
	}
	// copy harness files so the replay is self-contained w.r.t. later harness edits
	cb, _ := json.MarshalIndent([]*replayCase{c}, "", " ")
	os.WriteFile(filepath.Join(dir, "cases.json"), cb, 0o644)
	meta := map[string]any{"property": r.prop, "harness": c.Harness, "kind": c.vio.Kind, "msg": c.vio.Msg, "pos": c.vio.Pos, "finding": c.vio.Finding, "stack": c.vio.Stack, "package": ld.harnessPkg[c.Harness]}
	mb, _ := json.MarshalIndent(meta, "", " ")
	os.WriteFile(filepath.Join(dir, "meta.json"), mb, 0o644)
	os.WriteFile(filepath.Join(dir, "README"), []byte(fmt.Sprintf("replay: /verif/bin/check --replay %s\n(exit 1 = the recorded inputs still fail against /repo's current tree)\n", dir)), 0o644)
	return dir
}

func replaySaved(dir, repo, verif string) int {
	mb, err := os.ReadFile(filepath.Join(dir, "meta.json"))
	if err != nil {
		fmt.Println("cannot read meta.json:", err)
		return 2
	}
	var meta struct{ Property, Harness, Package string }
	json.Unmarshal(mb, &meta)
	r := &run{prop: meta.Property, verif: verif, repo: repo}
	files, err := r.harnessFiles()
	if err != nil {
		fmt.Println(err)
		return 2
	}
	ld, err := load(r, files)
	if err != nil {
		fmt.Printf("INCONCLUSIVE property=%s reason=harness does not build: %v\n", meta.Property, firstLines(err.Error(), 8))
		return 2
	}
	tmp, _ := os.MkdirTemp(filepath.Join(verif, "replays"), "run-")
	defer os.RemoveAll(tmp)
	overlay, _, err := r.buildReplayOverlay(ld, files, tmp)
	if err != nil {
		fmt.Println(err)
		return 2
	}
	outPath := filepath.Join(tmp, "out.json")
	out, _ := r.goTest(tmp, overlay, []string{"./" + meta.Package}, filepath.Join(dir, "cases.json"), outPath)
	matches, _ := filepath.Glob(outPath + ".*")
	for _, m := range matches {
		b, _ := os.ReadFile(m)
		var rs []nativeResult
		if json.Unmarshal(b, &rs) == nil {
			for _, n := range rs {
				fmt.Printf("native: harness=%s failed=%v (%s) panicked=%v findings=%v\n%s\n", n.Harness, n.Failed, n.FailMsg, n.Panicked, n.Findings, firstLines(n.PanicMsg, 6))
				if n.Failed || n.Panicked {
					fmt.Printf("VIOLATION property=%s replay=%s\n", meta.Property, dir)
					return 1
				}
				return 0
			}
		}
	}
	fmt.Printf("INCONCLUSIVE property=%s reason=no native result\n%s\n", meta.Property, tail(string(out), 20))
	return 2
}

func dedupe(in []string) []string {
	var out []string
	seen := map[string]bool{}
	for _, s := range in {
		key := s
		if i := strings.Index(s, " (inputs "); i > 0 {
			key = s[:i]
		}
		if len(key) > 160 {
			key = key[:160]
		}
		if !seen[key] {
			seen[key] = true
			out = append(out, s)
		}
	}
	return out
}
