package main

import (
	"fmt"
	"go/constant"
	"os"
	"path/filepath"
	"sort"
	"strings"

	"golang.org/x/tools/go/packages"
	"golang.org/x/tools/go/ssa"
	"golang.org/x/tools/go/ssa/ssautil"
)

type loaded struct {
	prog        *ssa.Program
	harnesses   []*ssa.Function
	reachLabels map[string][]string // harness -> Reach labels that appear in its (transitive, harness-file) code
	assertSites map[string][]string // harness -> Assert sites
	pkgDirs     []string
	harnessPkg  map[string]string // harness name -> repo-relative package dir
	rootFuncs   int
}

func goEnv() []string {
	var env []string
	for _, e := range os.Environ() {
		if !strings.HasPrefix(e, "PATH=") {
			env = append(env, e)
		}
	}
	env = append(env, "PATH=/opt/veriftools/go1.26.8/bin:"+os.Getenv("PATH"))
	env = append(env, "GOFLAGS=-mod=mod", "GOPROXY=off", "GOSUMDB=off", "GOTOOLCHAIN=local", "CGO_ENABLED=0")
	return env
}

func load(r *run, files []harnessFile) (*loaded, error) {
	overlay := map[string][]byte{}
	rt, err := os.ReadFile(filepath.Join(r.verif, "rt", "verifrt.go"))
	if err != nil {
		return nil, err
	}
	overlay[filepath.Join(r.repo, "pkg", "verifrt", "verifrt.go")] = rt
	for virt, real := range rtExtraFiles(r) {
		b, err := os.ReadFile(real)
		if err != nil {
			return nil, err
		}
		overlay[virt] = b
	}
	dirs := map[string]bool{}
	virtToDir := map[string]string{}
	for _, f := range files {
		b, err := os.ReadFile(f.path)
		if err != nil {
			return nil, err
		}
		overlay[f.virt] = b
		dirs[f.pkgDir] = true
		virtToDir[f.virt] = f.pkgDir
	}
	var patterns []string
	for d := range dirs {
		patterns = append(patterns, "./"+d)
	}
	sort.Strings(patterns)
	cfg := &packages.Config{
		Mode:       packages.LoadAllSyntax,
		Dir:        r.repo,
		Env:        goEnv(),
		BuildFlags: []string{"-tags=verif"},
		Overlay:    overlay,
	}
	pkgs, err := packages.Load(cfg, patterns...)
	if err != nil {
		return nil, err
	}
	var errs []string
	packages.Visit(pkgs, nil, func(p *packages.Package) {
		for _, e := range p.Errors {
			errs = append(errs, e.Error())
		}
	})
	if len(errs) > 0 {
		return nil, fmt.Errorf("%s", strings.Join(errs, "\n"))
	}
	prog, roots := ssautil.AllPackages(pkgs, ssa.InstantiateGenerics)
	ld := &loaded{prog: prog, reachLabels: map[string][]string{}, assertSites: map[string][]string{}, harnessPkg: map[string]string{}}
	// build every package up front: lazy building would race with the parallel path workers
	prog.Build()
	prefix := "Verif" + r.prop + "_"
	for k, p := range roots {
		if p == nil {
			continue
		}
		var names []string
		for name := range p.Members {
			names = append(names, name)
		}
		sort.Strings(names)
		for _, name := range names {
			fn, ok := p.Members[name].(*ssa.Function)
			if !ok || !strings.HasPrefix(name, prefix) || fn.Signature.Params().Len() != 0 {
				continue
			}
			ld.harnesses = append(ld.harnesses, fn)
			rel, _ := filepath.Rel(r.repo, filepath.Dir(prog.Fset.Position(fn.Pos()).Filename))
			ld.harnessPkg[name] = rel
			scanHarness(ld, fn, overlay)
		}
		_ = k
	}
	for d := range dirs {
		ld.pkgDirs = append(ld.pkgDirs, d)
	}
	sort.Strings(ld.pkgDirs)
	return ld, nil
}

// scanHarness collects the verifrt.Reach labels and Assert sites that occur in
// the harness function and in the harness-file functions it (transitively) calls.
func scanHarness(ld *loaded, root *ssa.Function, overlay map[string][]byte) {
	seen := map[*ssa.Function]bool{}
	reach := map[string]bool{}
	asserts := map[string]bool{}
	inHarnessFile := func(fn *ssa.Function) bool {
		if fn == nil || fn.Pos() == 0 {
			return fn != nil && fn.Parent() != nil
		}
		_, ok := overlay[ld.prog.Fset.Position(fn.Pos()).Filename]
		return ok
	}
	var walk func(fn *ssa.Function)
	walk = func(fn *ssa.Function) {
		if fn == nil || seen[fn] {
			return
		}
		seen[fn] = true
		for _, af := range fn.AnonFuncs {
			walk(af)
		}
		for _, b := range fn.Blocks {
			for _, in := range b.Instrs {
				var common *ssa.CallCommon
				switch c := in.(type) {
				case *ssa.Call:
					common = &c.Call
				case *ssa.Defer:
					common = &c.Call
				case *ssa.Go:
					common = &c.Call
				default:
					continue
				}
				callee := common.StaticCallee()
				if callee == nil {
					continue
				}
				switch callee.String() {
				case "sigs.k8s.io/karpenter/pkg/verifrt.Reach":
					if c, ok := common.Args[0].(*ssa.Const); ok && c.Value != nil {
						reach[constant.StringVal(c.Value)] = true
					}
				case "sigs.k8s.io/karpenter/pkg/verifrt.Assert":
					p := ld.prog.Fset.Position(in.Pos())
					asserts[fmt.Sprintf("%s:%d", trimRepo(p.Filename), p.Line)] = true
				}
				if inHarnessFile(callee) {
					walk(callee)
				}
			}
		}
	}
	walk(root)
	for k := range reach {
		ld.reachLabels[root.Name()] = append(ld.reachLabels[root.Name()], k)
	}
	for k := range asserts {
		ld.assertSites[root.Name()] = append(ld.assertSites[root.Name()], k)
	}
	sort.Strings(ld.reachLabels[root.Name()])
	sort.Strings(ld.assertSites[root.Name()])
}

func trimRepo(f string) string {
	if i := strings.Index(f, "/repo/"); i >= 0 {
		return f[i+6:]
	}
	return f
}

// rtExtraFiles maps /verif/rt/<sub>/*.go to /repo/pkg/verifrt/<sub>/*.go (helper packages of the harness runtime).
func rtExtraFiles(r *run) map[string]string {
	out := map[string]string{}
	ents, _ := os.ReadDir(filepath.Join(r.verif, "rt"))
	for _, e := range ents {
		if !e.IsDir() {
			continue
		}
		files, _ := os.ReadDir(filepath.Join(r.verif, "rt", e.Name()))
		for _, f := range files {
			if strings.HasSuffix(f.Name(), ".go") {
				out[filepath.Join(r.repo, "pkg", "verifrt", e.Name(), f.Name())] = filepath.Join(r.verif, "rt", e.Name(), f.Name())
			}
		}
	}
	return out
}
