package main

import (
	"encoding/json"
	"fmt"
	"os"
	"path/filepath"
	"sort"
	"strings"
	"time"

	"symgo/interp"
)

func (r *run) writeEvidence(ld *loaded, results []*interp.HarnessResult, cases []*replayCase, validated, disagreements, violations int,
	knownConfirmed []string, inconclusive []string, loadTime, replayWall time.Duration) {

	total := interp.Stats{Outcomes: map[string]int{}, Forks: map[string]int{}, Reach: map[string]int{}}
	funcs := map[string]*interp.FuncStat{}
	intr := map[string]int{}
	var harnesses []map[string]any
	var samples []any
	bounds := map[string]any{}
	nontrivial := 0
	var wall time.Duration
	var solverTime time.Duration
	q := map[string]int{}
	for _, res := range results {
		st := res.Stats
		wall += res.Wall
		solverTime += st.Solver.Time
		total.Paths += st.Paths
		total.Instrs += st.Instrs
		total.WrapTerms += st.WrapTerms
		total.Merges += st.Merges
		total.Asserts += st.Asserts
		total.Obligation += st.Obligation
		q["sat"] += st.Solver.Sat
		q["unsat"] += st.Solver.Unsat
		q["unknown"] += st.Solver.Unknown
		q["error"] += st.Solver.Errors
		for k, v := range st.Outcomes {
			total.Outcomes[k] += v
		}
		for k, v := range st.Forks {
			total.Forks[k] += v
		}
		for k, v := range st.Funcs {
			f := funcs[k]
			if f == nil {
				f = &interp.FuncStat{}
				funcs[k] = f
			}
			f.Instrs += v.Instrs
			f.Entered += v.Entered
		}
		for k, v := range st.Intrinsics {
			intr[k] += v
		}
		// paths that ran to completion and passed at least one assertion site or Reach mark
		nt := st.Outcomes["ok"] + st.Outcomes["panic"] + st.Outcomes["assert_failed"] + st.Outcomes["expected_panic"]
		nontrivial += nt
		harnesses = append(harnesses, map[string]any{
			"name": res.Name, "paths": st.Paths, "outcomes": st.Outcomes, "forks_by_kind": st.Forks, "reach_marks": st.Reach,
			"assert_sites": st.AssertSite, "assertions_evaluated": st.Asserts, "solver_obligations": st.Obligation,
			"queries":       map[string]int{"sat": st.Solver.Sat, "unsat": st.Solver.Unsat, "unknown": st.Solver.Unknown, "error": st.Solver.Errors},
			"solver_time_s": round3(st.Solver.Time.Seconds()), "wall_s": round3(res.Wall.Seconds()), "instructions": st.Instrs,
			"diamond_merges": st.Merges, "wrap_terms": st.WrapTerms, "pure_summaries": st.PureMerges, "pure_summaries_abandoned": st.PureAborts, "top_fork_sites": topN(st.ForkSites, 5),
			"path_budget_exhausted": res.Exhausted,
		})
		for k, s := range res.Samples {
			if k < 2 {
				samples = append(samples, s)
			}
			for name, v := range s.Model {
				if strings.HasPrefix(name, "bound:") {
					bounds[strings.TrimSuffix(strings.TrimPrefix(name, "bound:"), "#0")] = v
				}
			}
		}
		for _, v := range res.Violations {
			samples = append(samples, map[string]any{"candidate_violation": v})
		}
	}
	var fnList []map[string]any
	var karpFns []string
	for name := range funcs {
		if strings.Contains(name, "sigs.k8s.io/karpenter/") && !strings.Contains(name, "pkg/verifrt") {
			karpFns = append(karpFns, name)
		}
	}
	sort.Strings(karpFns)
	for _, name := range karpFns {
		if strings.Contains(name, ".Verif") || strings.Contains(name, "verif") && strings.Contains(name, "$") {
			continue
		}
		fnList = append(fnList, map[string]any{"name": name, "instrs_executed": funcs[name].Instrs, "times_entered": funcs[name].Entered})
	}
	if len(samples) == 0 {
		samples = append(samples, "no completed path")
	}
	transitions := sum(total.Forks)
	if transitions == 0 {
		transitions = total.Paths // a harness without symbolic branching still has one (trivial) decision sequence per path
	}
	ev := map[string]any{
		"property_id": r.prop,
		"tier":        r.tier,
		"seed":        r.seed,
		"level":       "model_checking",
		"wall_s":      round3(wall.Seconds() + loadTime.Seconds() + replayWall.Seconds()),
		"violations":  violations,
		"coverage": map[string]any{
			"states":                        max(nontrivial, 1),
			"transitions":                   max(transitions, 1),
			"traces_validated_against_impl": validated,
			"samples":                       samples,
			"evaluations":                   total.Paths,
			"distinct_nontrivial":           nontrivial,
			"rule": "one evaluation = one symbolic path of a harness (a distinct sequence of branch decisions over the real SSA of the functions listed in functions_encoded, " +
				"all scalar inputs symbolic); non-trivial = the path ran to completion (was not cut by an unsatisfiable assumption) and so had its assertions decided by the solver; " +
				"paths are distinct by construction (each is a different decision prefix)",
			"exhaustive":               len(inconclusive) == 0,
			"explanation":              "bounded symbolic execution of the implementation's go/ssa form; every assertion reached is an SMT obligation (negation unsat = holds for all inputs on that path within the bounds)",
			"functions_encoded":        fnList,
			"stubs_and_intrinsics":     intr,
			"bounds":                   bounds,
			"engine_bounds":            map[string]any{"path_budget": r.cfg.PathBudget, "instr_fuse_per_path": r.cfg.InstrFuse, "query_timeout_ms": r.cfg.QueryTimeoutMs, "workers": r.cfg.Workers, "map_iteration": "insertion order", "goroutines": "sequential model"},
			"queries":                  q,
			"solver":                   strings.Join(r.cfg.SolverArgv, " "),
			"solver_time_s":            round3(solverTime.Seconds()),
			"obligations":              total.Obligation,
			"assertions_evaluated":     total.Asserts,
			"overflow_wrap_terms":      total.WrapTerms,
			"diamond_merges":           total.Merges,
			"paths":                    total.Paths,
			"paths_by_outcome":         total.Outcomes,
			"forks_by_kind":            total.Forks,
			"instructions_executed":    total.Instrs,
			"harnesses":                harnesses,
			"native_replays":           map[string]any{"cases": len(cases), "agreed": validated, "disagreed": disagreements, "same_verdict_other_tie_break": r.tieBreakNotes, "wall_s": round3(replayWall.Seconds())},
			"known_findings_confirmed": knownConfirmed,
			"inconclusive":             inconclusive,
			"load_s":                   round3(loadTime.Seconds()),
		},
		"assumptions": r.assumptions(ld),
	}
	b, err := json.MarshalIndent(ev, "", " ")
	if err != nil {
		fmt.Fprintln(os.Stderr, "evidence:", err)
		return
	}
	dir := filepath.Join(r.verif, "evidence")
	os.MkdirAll(dir, 0o755)
	if err := os.WriteFile(filepath.Join(dir, r.prop+".json"), b, 0o644); err != nil {
		fmt.Fprintln(os.Stderr, "evidence:", err)
	}
}

func round3(f float64) float64 { return float64(int64(f*1000+0.5)) / 1000 }

// assumptions reads the `// verif:assume <text>` lines of the harness files.
func (r *run) assumptions(ld *loaded) []string {
	out := []string{
		"go/ssa (x/tools v0.50.0) and the forked ssa/interp core are faithful to the Go semantics (checked per run by native replay of path models)",
		"z3 answers sat/unsat correctly; any unknown/timeout/(error makes the run INCONCLUSIVE",
		"int is 64-bit; integers are SMT Ints with exact wrap-around terms; strings are concrete; map iteration is insertion-ordered",
		"logging, metrics and event construction have empty bodies; sync primitives follow the sequential model (DESIGN §3.8, §3.10)",
	}
	files, _ := r.harnessFiles()
	for _, f := range files {
		b, err := os.ReadFile(f.path)
		if err != nil {
			continue
		}
		for _, line := range strings.Split(string(b), "\n") {
			if s, ok := strings.CutPrefix(strings.TrimSpace(line), "// verif:assume "); ok {
				out = append(out, s)
			}
		}
	}
	return out
}
