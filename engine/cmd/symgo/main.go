// Command symgo runs the /verif harnesses of one property symbolically against
// /repo's current source and writes the evidence file (DESIGN §6).
package main

import (
	"encoding/json"
	"flag"
	"fmt"
	"os"
	"path/filepath"
	"regexp"
	"runtime"
	"sort"
	"strings"
	"time"

	"symgo/interp"
)

type knownFinding struct {
	ID       string `json:"id"`
	Property string `json:"property"`
	Status   string `json:"status"` // known | fixed
	Harness  string `json:"harness"`
	What     string `json:"what"`
	Commit   string `json:"commit,omitempty"`
}

func main() {
	var (
		prop       = flag.String("prop", "", "property id (C01…)")
		tier       = flag.String("tier", "quick", "quick | thorough")
		verifDir   = flag.String("verif", "/verif", "verif directory")
		repoDir    = flag.String("repo", "/repo", "repository")
		runRe      = flag.String("run", "", "regexp selecting harness functions")
		workers    = flag.Int("workers", runtime.NumCPU(), "worker count")
		verbose    = flag.Bool("v", false, "verbose")
		trace      = flag.Bool("trace", false, "trace instructions")
		noReplay   = flag.Bool("no-replay", false, "skip native replays (result is then INCONCLUSIVE for violations)")
		solverLog  = flag.String("solver-log", "", "write the SMT transcript of worker 0 here")
		pathBudget = flag.Int("paths", 0, "override path budget")
		replayDir  = flag.String("replay", "", "replay a saved violation directory natively and exit")
		solverName = flag.String("solver", "z3", "z3 | z3-new | cvc5")
		noEvidence = flag.Bool("no-evidence", false, "do not write the evidence file")
	)
	flag.Parse()
	os.Setenv("PATH", "/opt/veriftools/go1.26.8/bin:"+os.Getenv("PATH"))
	for k, v := range map[string]string{"GOFLAGS": "-mod=mod", "GOPROXY": "off", "GOSUMDB": "off", "GOTOOLCHAIN": "local"} {
		os.Setenv(k, v)
	}
	if *replayDir != "" {
		os.Exit(replaySaved(*replayDir, *repoDir, *verifDir))
	}
	if *prop == "" {
		fmt.Fprintln(os.Stderr, "usage: symgo -prop C20 [-tier quick|thorough]")
		os.Exit(2)
	}
	seed := 0
	fmt.Sscan(os.Getenv("VERIF_SEED"), &seed)
	if t := os.Getenv("VERIF_TIER"); t != "" && !isFlagSet("tier") {
		*tier = t
	}
	t0 := time.Now()
	r := &run{prop: *prop, tier: *tier, verif: *verifDir, repo: *repoDir, seed: seed, verbose: *verbose, noReplay: *noReplay, noEvidence: *noEvidence}
	r.cfg = interp.Config{
		Workers:        *workers,
		PathBudget:     200000,
		InstrFuse:      20_000_000,
		QueryTimeoutMs: 10000,
		SamplesPer:     6,
		Tier:           *tier,
		Trace:          *trace,
		Verbose:        *verbose,
	}
	if *tier == "thorough" {
		r.cfg.PathBudget = 3_000_000
		r.cfg.QueryTimeoutMs = 60000
		r.cfg.SamplesPer = 40
	}
	if *pathBudget > 0 {
		r.cfg.PathBudget = *pathBudget
	}
	switch *solverName {
	case "z3":
		r.cfg.SolverArgv = []string{"z3", "-in"}
	case "z3-new":
		r.cfg.SolverArgv = []string{"z3-new", "-in"}
	case "cvc5":
		r.cfg.SolverArgv = []string{"cvc5", "--incremental", "--lang=smt2", fmt.Sprintf("--tlimit-per=%d", r.cfg.QueryTimeoutMs)}
	}
	if *solverLog != "" {
		f, err := os.Create(*solverLog)
		if err == nil {
			defer f.Close()
			r.cfg.SolverLog = f
			r.cfg.Workers = 1
		}
	}
	if *runRe != "" {
		r.runRe = regexp.MustCompile(*runRe)
	}
	code := r.main()
	fmt.Printf("symgo: property=%s tier=%s wall=%.1fs exit=%d\n", *prop, *tier, time.Since(t0).Seconds(), code)
	os.Exit(code)
}

func isFlagSet(name string) bool {
	set := false
	flag.Visit(func(f *flag.Flag) {
		if f.Name == name {
			set = true
		}
	})
	return set
}

type run struct {
	prop, tier, verif, repo string
	seed                    int
	verbose, noReplay       bool
	noEvidence              bool
	cfg                     interp.Config
	runRe                   *regexp.Regexp
	known                   []knownFinding
	tieBreakNotes           int
}

type harnessFile struct {
	path   string // real file
	pkgDir string // repo-relative package dir
	virt   string // virtual path under /repo
}

func (r *run) loadKnown() {
	b, err := os.ReadFile(filepath.Join(r.verif, "known_findings.json"))
	if err != nil {
		return
	}
	var all struct {
		Findings []knownFinding `json:"findings"`
	}
	if err := json.Unmarshal(b, &all); err != nil {
		fmt.Fprintf(os.Stderr, "known_findings.json: %v\n", err)
		return
	}
	r.cfg.KnownStatus = map[string]string{}
	for _, k := range all.Findings {
		if k.Property == r.prop {
			r.known = append(r.known, k)
			r.cfg.KnownStatus[k.ID] = k.Status
		}
	}
}

func (r *run) harnessFiles() ([]harnessFile, error) {
	dir := filepath.Join(r.verif, "harness", r.prop)
	ents, err := os.ReadDir(dir)
	if err != nil {
		return nil, err
	}
	var out []harnessFile
	for _, e := range ents {
		if !strings.HasSuffix(e.Name(), ".go") {
			continue
		}
		p := filepath.Join(dir, e.Name())
		b, err := os.ReadFile(p)
		if err != nil {
			return nil, err
		}
		m := regexp.MustCompile(`(?m)^// verif:dir (\S+)`).FindSubmatch(b)
		if m == nil {
			return nil, fmt.Errorf("%s: missing `// verif:dir <package dir>` header", p)
		}
		pkgDir := string(m[1])
		base := strings.TrimSuffix(e.Name(), ".go")
		out = append(out, harnessFile{path: p, pkgDir: pkgDir, virt: filepath.Join(r.repo, pkgDir, "zz_verif_"+r.prop+"_"+base+".go")})
	}
	if len(out) == 0 {
		return nil, fmt.Errorf("no harness files in %s", dir)
	}
	return out, nil
}

func (r *run) main() int {
	r.loadKnown()
	files, err := r.harnessFiles()
	if err != nil {
		fmt.Printf("INCONCLUSIVE property=%s reason=%v\n", r.prop, err)
		return 2
	}
	t0 := time.Now()
	ld, err := load(r, files)
	if err != nil {
		fmt.Printf("INCONCLUSIVE property=%s reason=harness does not build against the current tree: %v\n", r.prop, firstLines(err.Error(), 12))
		return 2
	}
	loadTime := time.Since(t0)
	if r.verbose {
		fmt.Fprintf(os.Stderr, "loaded in %.1fs: %d harnesses\n", loadTime.Seconds(), len(ld.harnesses))
	}
	if len(ld.harnesses) == 0 {
		fmt.Printf("INCONCLUSIVE property=%s reason=no harness functions Verif%s_* found\n", r.prop, r.prop)
		return 2
	}
	r.cfg.PureFuncs = directiveMatcher(files, "pure")
	r.cfg.NoopFuncs = directiveMatcher(files, "noop")
	eng := &interp.Engine{Prog: ld.prog, Cfg: r.cfg, Fset: ld.prog.Fset}
	var results []*interp.HarnessResult
	for _, h := range ld.harnesses {
		if r.runRe != nil && !r.runRe.MatchString(h.Name()) {
			continue
		}
		res := eng.RunHarness(h)
		results = append(results, res)
		st := res.Stats
		fmt.Printf("harness %-40s paths=%-7d forks=%-7d queries(sat/unsat/unk)=%d/%d/%d solver=%.1fs wall=%.1fs violations=%d inconclusive=%d\n",
			res.Name, st.Paths, sum(st.Forks), st.Solver.Sat, st.Solver.Unsat, st.Solver.Unknown, st.Solver.Time.Seconds(), res.Wall.Seconds(), len(res.Violations), len(res.Inconclusive))
		if r.verbose {
			fmt.Fprintf(os.Stderr, "  outcomes=%v reach=%v merges=%d wraps=%d pure(merged/aborted)=%d/%d\n", st.Outcomes, st.Reach, st.Merges, st.WrapTerms, st.PureMerges, st.PureAborts)
			for _, s := range topN(st.ForkSites, 8) {
				fmt.Fprintf(os.Stderr, "  fork site %s\n", s)
			}
		}
	}
	return r.conclude(ld, files, results, loadTime)
}

// directiveMatcher compiles the `// verif:<kind> <regexp>` lines of the harness files.
func directiveMatcher(files []harnessFile, kind string) func(string) bool {
	var res []*regexp.Regexp
	for _, f := range files {
		b, err := os.ReadFile(f.path)
		if err != nil {
			continue
		}
		for _, line := range strings.Split(string(b), "\n") {
			if s, ok := strings.CutPrefix(strings.TrimSpace(line), "// verif:"+kind+" "); ok {
				res = append(res, regexp.MustCompile(strings.TrimSpace(s)))
			}
		}
	}
	if len(res) == 0 {
		return nil
	}
	return func(name string) bool {
		for _, re := range res {
			if re.MatchString(name) {
				return true
			}
		}
		return false
	}
}

func sum(m map[string]int) int {
	n := 0
	for _, v := range m {
		n += v
	}
	return n
}

func topN(m map[string]int, n int) []string {
	type kv struct {
		k string
		v int
	}
	var s []kv
	for k, v := range m {
		s = append(s, kv{k, v})
	}
	sort.Slice(s, func(i, j int) bool { return s[i].v > s[j].v || s[i].v == s[j].v && s[i].k < s[j].k })
	var out []string
	for i := 0; i < len(s) && i < n; i++ {
		out = append(out, fmt.Sprintf("%s ×%d", s[i].k, s[i].v))
	}
	return out
}

func firstLines(s string, n int) string {
	lines := strings.Split(s, "\n")
	if len(lines) > n {
		lines = lines[:n]
	}
	return strings.Join(lines, " | ")
}
