package interp

// Symbolic terms and symbolic scalar values.
//
// Integers are SMT Ints with Go's wrap-around kept exact by ite/mod terms that
// are emitted only when interval bounds cannot exclude overflow (DESIGN §3.1).
// Floats are SMT FloatingPoint(11,53). Strings are always concrete.

import (
	"fmt"
	"go/token"
	"go/types"
	"math"
	"math/big"
	"strings"
)

type Sort int

const (
	SBool Sort = iota
	SInt
	SFP
)

type Term struct {
	S      string
	Sort   Sort
	lo, hi *big.Int // conservative bounds for SInt terms (nil = unknown)
}

type symBool struct{ t *Term }
type symInt struct {
	t *Term
	k types.BasicKind
}

// symFloat: num/den, when set, records that the value is exactly the integer term num divided by the constant den
// (Duration.Seconds() and friends), so a following integer conversion is exact integer division.
type symFloat struct {
	t   *Term
	num *Term
	den int64
}

// unsupportedErr marks constructs the engine does not model: the path is
// reported INCONCLUSIVE, never as success or violation.
type unsupportedErr struct{ msg string }

func (u unsupportedErr) Error() string { return "unsupported: " + u.msg }
func unsupported(format string, a ...any) unsupportedErr {
	return unsupportedErr{fmt.Sprintf(format, a...)}
}

var (
	trueT  = &Term{S: "true", Sort: SBool}
	falseT = &Term{S: "false", Sort: SBool}
)

func isSym(v value) bool {
	switch v.(type) {
	case symBool, symInt, symFloat:
		return true
	}
	return false
}

func bigStr(b *big.Int) string {
	if b.Sign() < 0 {
		return "(- " + new(big.Int).Neg(b).String() + ")"
	}
	return b.String()
}

func intConst(b *big.Int) *Term {
	return &Term{S: bigStr(b), Sort: SInt, lo: b, hi: b}
}

func intConst64(v int64) *Term { return intConst(big.NewInt(v)) }

func boolConst(b bool) *Term {
	if b {
		return trueT
	}
	return falseT
}

func kindOf(v value) types.BasicKind {
	switch v := v.(type) {
	case int:
		return types.Int
	case int8:
		return types.Int8
	case int16:
		return types.Int16
	case int32:
		return types.Int32
	case int64:
		return types.Int64
	case uint:
		return types.Uint
	case uint8:
		return types.Uint8
	case uint16:
		return types.Uint16
	case uint32:
		return types.Uint32
	case uint64:
		return types.Uint64
	case uintptr:
		return types.Uintptr
	case symInt:
		return v.k
	}
	panic(fmt.Sprintf("kindOf: not an integer: %T", v))
}

func isIntValue(v value) bool {
	switch v.(type) {
	case int, int8, int16, int32, int64, uint, uint8, uint16, uint32, uint64, uintptr, symInt:
		return true
	}
	return false
}

func kindBits(k types.BasicKind) (bits uint, signed bool) {
	switch k {
	case types.Int, types.Int64:
		return 64, true
	case types.Int8:
		return 8, true
	case types.Int16:
		return 16, true
	case types.Int32:
		return 32, true
	case types.Uint, types.Uint64, types.Uintptr:
		return 64, false
	case types.Uint8:
		return 8, false
	case types.Uint16:
		return 16, false
	case types.Uint32:
		return 32, false
	}
	panic(fmt.Sprintf("kindBits: %v", k))
}

func kindRange(k types.BasicKind) (lo, hi *big.Int) {
	bits, signed := kindBits(k)
	one := big.NewInt(1)
	if signed {
		hi = new(big.Int).Sub(new(big.Int).Lsh(one, bits-1), one)
		lo = new(big.Int).Neg(new(big.Int).Lsh(one, bits-1))
	} else {
		lo = big.NewInt(0)
		hi = new(big.Int).Sub(new(big.Int).Lsh(one, bits), one)
	}
	return
}

func concreteBig(v value) *big.Int {
	switch v := v.(type) {
	case uint:
		return new(big.Int).SetUint64(uint64(v))
	case uint64:
		return new(big.Int).SetUint64(v)
	case uintptr:
		return new(big.Int).SetUint64(uint64(v))
	}
	return big.NewInt(asInt64(v))
}

// intTerm lifts an integer value (concrete or symbolic) to a term.
func intTerm(v value) *Term {
	if s, ok := v.(symInt); ok {
		return s.t
	}
	return intConst(concreteBig(v))
}

func boolTerm(v value) *Term {
	switch v := v.(type) {
	case symBool:
		return v.t
	case bool:
		return boolConst(v)
	}
	panic(fmt.Sprintf("boolTerm: %T", v))
}

func fpConst(f float64) *Term {
	b := math.Float64bits(f)
	sign := b >> 63
	exp := (b >> 52) & 0x7ff
	man := b & ((1 << 52) - 1)
	return &Term{S: fmt.Sprintf("(fp #b%d #b%011b #x%013x)", sign, exp, man), Sort: SFP}
}

func fpTerm(v value) *Term {
	switch v := v.(type) {
	case symFloat:
		if v.t == nil && v.num != nil {
			return &Term{S: "(fp.div RNE ((_ to_fp 11 53) RNE (to_real " + v.num.S + ")) " + fpConst(float64(v.den)).S + ")", Sort: SFP}
		}
		return v.t
	case float64:
		return fpConst(v)
	}
	panic(fmt.Sprintf("fpTerm: %T", v))
}

// mkBool returns a Go bool when the term is a literal, else a symBool.
func mkBool(t *Term) value {
	switch t.S {
	case "true":
		return true
	case "false":
		return false
	}
	return symBool{t}
}

func tNot(a *Term) *Term {
	switch a.S {
	case "true":
		return falseT
	case "false":
		return trueT
	}
	if strings.HasPrefix(a.S, "(not ") {
		return &Term{S: a.S[5 : len(a.S)-1], Sort: SBool}
	}
	return &Term{S: "(not " + a.S + ")", Sort: SBool}
}

func tAnd(ts ...*Term) *Term {
	var parts []string
	for _, t := range ts {
		if t.S == "false" {
			return falseT
		}
		if t.S == "true" {
			continue
		}
		parts = append(parts, t.S)
	}
	switch len(parts) {
	case 0:
		return trueT
	case 1:
		return &Term{S: parts[0], Sort: SBool}
	}
	return &Term{S: "(and " + strings.Join(parts, " ") + ")", Sort: SBool}
}

func tOr(ts ...*Term) *Term {
	var parts []string
	for _, t := range ts {
		if t.S == "true" {
			return trueT
		}
		if t.S == "false" {
			continue
		}
		parts = append(parts, t.S)
	}
	switch len(parts) {
	case 0:
		return falseT
	case 1:
		return &Term{S: parts[0], Sort: SBool}
	}
	return &Term{S: "(or " + strings.Join(parts, " ") + ")", Sort: SBool}
}

func tIte(c, a, b *Term) *Term {
	if c.S == "true" {
		return a
	}
	if c.S == "false" {
		return b
	}
	if a.S == b.S {
		return a
	}
	t := &Term{S: "(ite " + c.S + " " + a.S + " " + b.S + ")", Sort: a.Sort}
	if a.Sort == SInt && a.lo != nil && b.lo != nil && a.hi != nil && b.hi != nil {
		t.lo, t.hi = minBig(a.lo, b.lo), maxBig(a.hi, b.hi)
	}
	if a.Sort == SBool {
		if a.S == "true" && b.S == "false" {
			return c
		}
		if a.S == "false" && b.S == "true" {
			return tNot(c)
		}
	}
	return t
}

func minBig(a, b *big.Int) *big.Int {
	if a.Cmp(b) <= 0 {
		return a
	}
	return b
}
func maxBig(a, b *big.Int) *big.Int {
	if a.Cmp(b) >= 0 {
		return a
	}
	return b
}

func tCmp(op string, a, b *Term) *Term {
	// constant folding through bounds
	if a.Sort == SInt && a.lo != nil && a.hi != nil && b.lo != nil && b.hi != nil {
		switch op {
		case "<":
			if a.hi.Cmp(b.lo) < 0 {
				return trueT
			}
			if a.lo.Cmp(b.hi) >= 0 {
				return falseT
			}
		case "<=":
			if a.hi.Cmp(b.lo) <= 0 {
				return trueT
			}
			if a.lo.Cmp(b.hi) > 0 {
				return falseT
			}
		case ">":
			if a.lo.Cmp(b.hi) > 0 {
				return trueT
			}
			if a.hi.Cmp(b.lo) <= 0 {
				return falseT
			}
		case ">=":
			if a.lo.Cmp(b.hi) >= 0 {
				return trueT
			}
			if a.hi.Cmp(b.lo) < 0 {
				return falseT
			}
		case "=":
			if a.hi.Cmp(b.lo) < 0 || a.lo.Cmp(b.hi) > 0 {
				return falseT
			}
			if a.lo.Cmp(a.hi) == 0 && b.lo.Cmp(b.hi) == 0 && a.lo.Cmp(b.lo) == 0 {
				return trueT
			}
		}
	}
	if op == "=" && a.S == b.S && a.Sort != SFP {
		return trueT
	}
	return &Term{S: "(" + op + " " + a.S + " " + b.S + ")", Sort: SBool}
}

// ---- integer arithmetic with exact wrap-around ----

type symStats struct {
	wrapTerms int
}

// wrap returns r reduced into the range of kind k. single: at most one
// multiple of 2^w away (add/sub/neg of in-range operands).
func (i *interpreter) wrap(r *Term, k types.BasicKind, single bool) *Term {
	lo, hi := kindRange(k)
	if r.lo != nil && r.hi != nil && r.lo.Cmp(lo) >= 0 && r.hi.Cmp(hi) <= 0 {
		return r
	}
	bits, _ := kindBits(k)
	mod := new(big.Int).Lsh(big.NewInt(1), bits)
	i.stats.WrapTerms++
	var s string
	if single {
		s = fmt.Sprintf("(let ((r!w %s)) (ite (> r!w %s) (- r!w %s) (ite (< r!w %s) (+ r!w %s) r!w)))",
			r.S, bigStr(hi), mod.String(), bigStr(lo), mod.String())
	} else {
		s = fmt.Sprintf("(+ (mod (- %s %s) %s) %s)", r.S, bigStr(lo), mod.String(), bigStr(lo))
	}
	return &Term{S: s, Sort: SInt, lo: lo, hi: hi}
}

func addB(a, b *big.Int) *big.Int {
	if a == nil || b == nil {
		return nil
	}
	return new(big.Int).Add(a, b)
}
func subB(a, b *big.Int) *big.Int {
	if a == nil || b == nil {
		return nil
	}
	return new(big.Int).Sub(a, b)
}

func (i *interpreter) symIntBinop(op token.Token, x, y value) value {
	k := kindOf(x)
	if op != token.SHL && op != token.SHR && kindOf(y) != k {
		panic(fmt.Sprintf("symIntBinop: kind mismatch %v %v", k, kindOf(y)))
	}
	a, b := intTerm(x), intTerm(y)
	_, xsym := x.(symInt)
	_, ysym := y.(symInt)
	switch op {
	case token.ADD:
		r := &Term{S: "(+ " + a.S + " " + b.S + ")", Sort: SInt, lo: addB(a.lo, b.lo), hi: addB(a.hi, b.hi)}
		return symInt{i.wrap(r, k, true), k}
	case token.SUB:
		r := &Term{S: "(- " + a.S + " " + b.S + ")", Sort: SInt, lo: subB(a.lo, b.hi), hi: subB(a.hi, b.lo)}
		return symInt{i.wrap(r, k, true), k}
	case token.MUL:
		if xsym && ysym {
			panic(unsupported("symbolic * symbolic multiplication"))
		}
		var c *big.Int
		var s *Term
		if xsym {
			c, s = concreteBig(y), a
		} else {
			c, s = concreteBig(x), b
		}
		r := &Term{S: "(* " + bigStr(c) + " " + s.S + ")", Sort: SInt}
		if s.lo != nil && s.hi != nil {
			p, q := new(big.Int).Mul(c, s.lo), new(big.Int).Mul(c, s.hi)
			r.lo, r.hi = minBig(p, q), maxBig(p, q)
		}
		return symInt{i.wrap(r, k, false), k}
	case token.QUO, token.REM:
		if ysym {
			panic(unsupported("division by a symbolic value"))
		}
		c := concreteBig(y)
		if c.Sign() == 0 {
			panic(targetPanic{"runtime error: integer divide by zero"})
		}
		absC := new(big.Int).Abs(c)
		// truncated quotient by |c|
		q := fmt.Sprintf("(ite (>= %s 0) (div %s %s) (- (div (- %s) %s)))", a.S, a.S, absC.String(), a.S, absC.String())
		qt := &Term{S: q, Sort: SInt}
		if a.lo != nil && a.hi != nil {
			l, h := new(big.Int).Quo(a.lo, absC), new(big.Int).Quo(a.hi, absC)
			qt.lo, qt.hi = minBig(l, h), maxBig(l, h)
		}
		if op == token.REM {
			// x - |c| * trunc(x/|c|); sign follows the dividend, independent of sign(c)
			r := &Term{S: fmt.Sprintf("(- %s (* %s %s))", a.S, absC.String(), qt.S), Sort: SInt}
			m := new(big.Int).Sub(absC, big.NewInt(1))
			r.lo, r.hi = new(big.Int).Neg(m), m
			if a.lo != nil && a.lo.Sign() >= 0 {
				r.lo = big.NewInt(0)
			}
			return symInt{r, k}
		}
		if c.Sign() < 0 {
			n := &Term{S: "(- " + qt.S + ")", Sort: SInt}
			if qt.lo != nil {
				n.lo, n.hi = new(big.Int).Neg(qt.hi), new(big.Int).Neg(qt.lo)
			}
			return symInt{i.wrap(n, k, true), k}
		}
		return symInt{qt, k}
	case token.SHL, token.SHR:
		if ysym {
			panic(unsupported("shift by a symbolic count"))
		}
		n := concreteBig(y)
		if !n.IsUint64() || n.Uint64() > 64 {
			panic(unsupported("shift count out of range"))
		}
		p := new(big.Int).Lsh(big.NewInt(1), uint(n.Uint64()))
		if op == token.SHL {
			r := &Term{S: "(* " + p.String() + " " + a.S + ")", Sort: SInt}
			if a.lo != nil && a.hi != nil {
				r.lo, r.hi = new(big.Int).Mul(p, a.lo), new(big.Int).Mul(p, a.hi)
			}
			return symInt{i.wrap(r, k, false), k}
		}
		r := &Term{S: "(div " + a.S + " " + p.String() + ")", Sort: SInt}
		if a.lo != nil && a.hi != nil {
			r.lo, r.hi = floorDiv(a.lo, p), floorDiv(a.hi, p)
		}
		return symInt{r, k}
	case token.EQL:
		return mkBool(tCmp("=", a, b))
	case token.NEQ:
		return mkBool(tNot(tCmp("=", a, b)))
	case token.LSS:
		return mkBool(tCmp("<", a, b))
	case token.LEQ:
		return mkBool(tCmp("<=", a, b))
	case token.GTR:
		return mkBool(tCmp(">", a, b))
	case token.GEQ:
		return mkBool(tCmp(">=", a, b))
	}
	panic(unsupported("operator %s on symbolic integers", op))
}

func floorDiv(a, b *big.Int) *big.Int {
	q, m := new(big.Int).DivMod(a, b, new(big.Int))
	_ = m
	return q // DivMod is Euclidean; for b>0 this is floor
}

// ---- exact rational view of floats derived from symbolic integers ----
// A symFloat with num set stands for the rational num/den (den > 0, a constant). Conversions from symbolic
// integers, + and - between such values, and * and / by constants are computed exactly as rationals, and
// comparisons are decided with integers. This equals IEEE double arithmetic whenever every intermediate result is
// representable (dyadic values with < 53 significant bits, e.g. the eviction-cost formula); the SMT FloatingPoint
// term is only built when an operation outside this fragment is needed.

type rat struct {
	num *Term
	den *big.Int
}

// asRat views a float value as an exact rational.
func asRat(v value) (rat, bool) {
	switch x := v.(type) {
	case symFloat:
		if x.num != nil {
			return rat{x.num, big.NewInt(x.den)}, x.den > 0
		}
	case float64:
		if math.IsNaN(x) || math.IsInf(x, 0) {
			return rat{}, false
		}
		r, _ := new(big.Rat).SetString(new(big.Float).SetFloat64(x).Text('f', -1))
		if r == nil {
			return rat{}, false
		}
		return rat{intConst(r.Num()), r.Denom()}, true
	}
	return rat{}, false
}

func mulTerm(t *Term, c *big.Int) *Term {
	if c.Cmp(big.NewInt(1)) == 0 {
		return t
	}
	r := &Term{S: "(* " + bigStr(c) + " " + t.S + ")", Sort: SInt}
	if t.lo != nil && t.hi != nil {
		a, b := new(big.Int).Mul(c, t.lo), new(big.Int).Mul(c, t.hi)
		r.lo, r.hi = minBig(a, b), maxBig(a, b)
	}
	return r
}

func mkRat(num *Term, den *big.Int) (value, bool) {
	if !den.IsInt64() {
		return nil, false
	}
	if num.lo != nil && num.hi != nil && num.lo.Cmp(num.hi) == 0 {
		f, _ := new(big.Rat).SetFrac(num.lo, den).Float64()
		return f, true
	}
	return symFloat{num: num, den: den.Int64()}, true
}

// ratBinop computes x op y exactly when both sides have a rational view and the result stays in the fragment.
func ratBinop(op token.Token, x, y value) (value, bool) {
	if !isSym(x) && !isSym(y) {
		return nil, false
	}
	a, ok1 := asRat(x)
	b, ok2 := asRat(y)
	if !ok1 || !ok2 {
		return nil, false
	}
	cmp := func(o string) (value, bool) {
		g := new(big.Int).GCD(nil, nil, a.den, b.den)
		return mkBool(tCmp(o, mulTerm(a.num, new(big.Int).Div(b.den, g)), mulTerm(b.num, new(big.Int).Div(a.den, g)))), true
	}
	switch op {
	case token.ADD, token.SUB:
		g := new(big.Int).GCD(nil, nil, a.den, b.den)
		den := new(big.Int).Div(new(big.Int).Mul(a.den, b.den), g) // least common denominator
		l, r := mulTerm(a.num, new(big.Int).Div(den, a.den)), mulTerm(b.num, new(big.Int).Div(den, b.den))
		o := "+"
		if op == token.SUB {
			o = "-"
		}
		t := &Term{S: "(" + o + " " + l.S + " " + r.S + ")", Sort: SInt}
		if op == token.ADD {
			t.lo, t.hi = addB(l.lo, r.lo), addB(l.hi, r.hi)
		} else {
			t.lo, t.hi = subB(l.lo, r.hi), subB(l.hi, r.lo)
		}
		return mkRat(t, den)
	case token.MUL, token.QUO:
		// one side must be a constant
		var c rat
		var s rat
		switch {
		case !isSym(y):
			c, s = b, a
		case !isSym(x) && op == token.MUL:
			c, s = a, b
		default:
			return nil, false
		}
		cn := c.num.lo // constant: lo == hi
		if cn == nil || cn.Sign() == 0 {
			return nil, false
		}
		var num *Term
		var den *big.Int
		if op == token.MUL {
			num, den = mulTerm(s.num, cn), new(big.Int).Mul(s.den, c.den)
		} else {
			num, den = mulTerm(s.num, c.den), new(big.Int).Mul(s.den, cn)
		}
		if den.Sign() < 0 {
			den.Neg(den)
			num = mulTerm(num, big.NewInt(-1))
		}
		return mkRat(num, den)
	case token.LSS:
		return cmp("<")
	case token.LEQ:
		return cmp("<=")
	case token.GTR:
		return cmp(">")
	case token.GEQ:
		return cmp(">=")
	case token.EQL:
		return cmp("=")
	case token.NEQ:
		v, _ := cmp("=")
		return notV(v), true
	}
	return nil, false
}

// ratCompare decides (num/den) op c exactly with integers when c*den is an integer (den > 0).
func ratCompare(op token.Token, f symFloat, c float64, flipped bool) (value, bool) {
	if f.num == nil || math.IsNaN(c) || math.IsInf(c, 0) {
		return nil, false
	}
	prod := new(big.Float).Mul(big.NewFloat(c), new(big.Float).SetInt64(f.den))
	if !prod.IsInt() {
		return nil, false
	}
	bound, _ := prod.Int(nil)
	l, r := f.num, intConst(bound)
	if flipped {
		l, r = r, l
	}
	switch op {
	case token.LSS:
		return mkBool(tCmp("<", l, r)), true
	case token.LEQ:
		return mkBool(tCmp("<=", l, r)), true
	case token.GTR:
		return mkBool(tCmp(">", l, r)), true
	case token.GEQ:
		return mkBool(tCmp(">=", l, r)), true
	case token.EQL:
		return mkBool(tCmp("=", l, r)), true
	case token.NEQ:
		return mkBool(tNot(tCmp("=", l, r))), true
	}
	return nil, false
}

func (i *interpreter) symFloatBinop(op token.Token, x, y value) value {
	if v, ok := ratBinop(op, x, y); ok {
		return v
	}
	if xf, ok := x.(symFloat); ok {
		if c, ok := y.(float64); ok {
			if v, ok := ratCompare(op, xf, c, false); ok {
				return v
			}
		}
	}
	if yf, ok := y.(symFloat); ok {
		if c, ok := x.(float64); ok {
			if v, ok := ratCompare(op, yf, c, true); ok {
				return v
			}
		}
	}
	a, b := fpTerm(x), fpTerm(y)
	switch op {
	case token.ADD:
		return symFloat{t: &Term{S: "(fp.add RNE " + a.S + " " + b.S + ")", Sort: SFP}}
	case token.SUB:
		return symFloat{t: &Term{S: "(fp.sub RNE " + a.S + " " + b.S + ")", Sort: SFP}}
	case token.MUL:
		return symFloat{t: &Term{S: "(fp.mul RNE " + a.S + " " + b.S + ")", Sort: SFP}}
	case token.QUO:
		return symFloat{t: &Term{S: "(fp.div RNE " + a.S + " " + b.S + ")", Sort: SFP}}
	case token.EQL:
		return mkBool(&Term{S: "(fp.eq " + a.S + " " + b.S + ")", Sort: SBool})
	case token.NEQ:
		return mkBool(tNot(&Term{S: "(fp.eq " + a.S + " " + b.S + ")", Sort: SBool}))
	case token.LSS:
		return mkBool(&Term{S: "(fp.lt " + a.S + " " + b.S + ")", Sort: SBool})
	case token.LEQ:
		return mkBool(&Term{S: "(fp.leq " + a.S + " " + b.S + ")", Sort: SBool})
	case token.GTR:
		return mkBool(&Term{S: "(fp.gt " + a.S + " " + b.S + ")", Sort: SBool})
	case token.GEQ:
		return mkBool(&Term{S: "(fp.geq " + a.S + " " + b.S + ")", Sort: SBool})
	}
	panic(unsupported("operator %s on symbolic floats", op))
}

func (i *interpreter) symBoolBinop(op token.Token, x, y value) value {
	a, b := boolTerm(x), boolTerm(y)
	switch op {
	case token.EQL:
		return mkBool(tCmp("=", a, b))
	case token.NEQ:
		return mkBool(tNot(tCmp("=", a, b)))
	case token.AND, token.LAND:
		return mkBool(tAnd(a, b))
	case token.OR, token.LOR:
		return mkBool(tOr(a, b))
	}
	panic(unsupported("operator %s on symbolic bools", op))
}

// symConvInt converts a symbolic integer to kind dst.
func (i *interpreter) symConvInt(x symInt, dst types.BasicKind) value {
	return symInt{i.wrap(x.t, dst, false), dst}
}

func concreteOfKind(k types.BasicKind, b *big.Int) value {
	switch k {
	case types.Int:
		return int(b.Int64())
	case types.Int8:
		return int8(b.Int64())
	case types.Int16:
		return int16(b.Int64())
	case types.Int32:
		return int32(b.Int64())
	case types.Int64:
		return b.Int64()
	case types.Uint:
		return uint(b.Uint64())
	case types.Uint8:
		return uint8(b.Uint64())
	case types.Uint16:
		return uint16(b.Uint64())
	case types.Uint32:
		return uint32(b.Uint64())
	case types.Uint64:
		return b.Uint64()
	case types.Uintptr:
		return uintptr(b.Uint64())
	}
	panic("concreteOfKind")
}

// mkInt returns a concrete Go integer when the term is a literal.
func mkInt(t *Term, k types.BasicKind) value {
	if t.lo != nil && t.hi != nil && t.lo.Cmp(t.hi) == 0 {
		lo, hi := kindRange(k)
		if t.lo.Cmp(lo) >= 0 && t.lo.Cmp(hi) <= 0 {
			return concreteOfKind(k, t.lo)
		}
	}
	return symInt{t, k}
}

// ite over values (used by diamond merging and Select-like intrinsics).
// ok=false when the two values cannot be merged into one value.
func (i *interpreter) iteValue(c *Term, a, b value) (value, bool) {
	switch av := a.(type) {
	case bool, symBool:
		switch b.(type) {
		case bool, symBool:
			return mkBool(tIte(c, boolTerm(a), boolTerm(b))), true
		}
	case float64, symFloat:
		switch b.(type) {
		case float64, symFloat:
			if af, ok := a.(float64); ok {
				if bf, ok := b.(float64); ok && math.Float64bits(af) == math.Float64bits(bf) {
					return a, true
				}
			}
			if ra, ok := asRat(a); ok {
				if rb, ok := asRat(b); ok {
					g := new(big.Int).GCD(nil, nil, ra.den, rb.den)
					den := new(big.Int).Div(new(big.Int).Mul(ra.den, rb.den), g)
					if v, ok := mkRat(tIte(c, mulTerm(ra.num, new(big.Int).Div(den, ra.den)), mulTerm(rb.num, new(big.Int).Div(den, rb.den))), den); ok {
						return v, true
					}
				}
			}
			return symFloat{t: tIte(c, fpTerm(a), fpTerm(b))}, true
		}
	case structure:
		bv, ok := b.(structure)
		if !ok || len(av) != len(bv) {
			return nil, false
		}
		out := make(structure, len(av))
		for j := range av {
			v, ok := i.iteValue(c, av[j], bv[j])
			if !ok {
				return nil, false
			}
			out[j] = v
		}
		return out, true
	case tuple:
		bv, ok := b.(tuple)
		if !ok || len(av) != len(bv) {
			return nil, false
		}
		out := make(tuple, len(av))
		for j := range av {
			v, ok := i.iteValue(c, av[j], bv[j])
			if !ok {
				return nil, false
			}
			out[j] = v
		}
		return out, true
	case iface:
		bv, ok := b.(iface)
		if !ok || !sameType(av.t, bv.t) {
			return nil, false
		}
		if av.t == nil {
			return a, true
		}
		v, ok := i.iteValue(c, av.v, bv.v)
		if !ok {
			return nil, false
		}
		return iface{av.t, v}, true
	}
	if isIntValue(a) && isIntValue(b) && kindOf(a) == kindOf(b) {
		return mkInt(tIte(c, intTerm(a), intTerm(b)), kindOf(a)), true
	}
	// identical concrete values (pointers, strings, ...)
	if !isSym(a) && !isSym(b) {
		switch a.(type) {
		case string, *value, *omap:
			if a == b {
				return a, true
			}
		}
	}
	return nil, false
}
