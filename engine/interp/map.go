package interp

// Insertion-ordered map. Replaces both map representations of the upstream
// interpreter so that iteration order is deterministic (re-execution with a
// decision prefix relies on determinism). Keys are always concrete.

import (
	"go/types"
)

type hashable interface {
	hash(t types.Type) int
	eq(t types.Type, x any) bool
}

type omap struct {
	keyType types.Type
	keys    []value
	vals    []value
	idx     map[value]int // key -> position, for builtin-hashable key types
	hidx    map[int][]int // hash -> positions, for struct/array/interface keys
	builtin bool
}

func makeMap(kt types.Type, reserve int64) value {
	m := &omap{keyType: kt, builtin: usesBuiltinMap(kt)}
	if m.builtin {
		m.idx = make(map[value]int)
	} else {
		m.hidx = make(map[int][]int)
	}
	return m
}

func checkKey(k value) {
	switch k.(type) {
	case symBool, symInt, symFloat:
		panic(unsupported("symbolic value used as map key"))
	}
}

func (m *omap) find(k value) int {
	if m == nil {
		return -1
	}
	checkKey(k)
	if m.builtin {
		if p, ok := m.idx[k]; ok {
			return p
		}
		return -1
	}
	h := hash(m.keyType, m.keyType, k)
	for _, p := range m.hidx[h] {
		if equals(m.keyType, m.keys[p], k) {
			return p
		}
	}
	return -1
}

func (m *omap) lookup(k value) (value, bool) {
	p := m.find(k)
	if p < 0 {
		return nil, false
	}
	return m.vals[p], true
}

func (m *omap) insert(k, v value) {
	if m == nil {
		panic(targetPanic{"assignment to entry in nil map"})
	}
	if p := m.find(k); p >= 0 {
		m.vals[p] = v
		return
	}
	p := len(m.keys)
	m.keys = append(m.keys, k)
	m.vals = append(m.vals, v)
	if m.builtin {
		m.idx[k] = p
	} else {
		h := hash(m.keyType, m.keyType, k)
		m.hidx[h] = append(m.hidx[h], p)
	}
}

func (m *omap) delete(k value) {
	p := m.find(k)
	if p < 0 {
		return
	}
	m.keys = append(m.keys[:p:p], m.keys[p+1:]...)
	m.vals = append(m.vals[:p:p], m.vals[p+1:]...)
	m.reindex()
}

func (m *omap) reindex() {
	if m.builtin {
		m.idx = make(map[value]int, len(m.keys))
		for i, k := range m.keys {
			m.idx[k] = i
		}
	} else {
		m.hidx = make(map[int][]int, len(m.keys))
		for i, k := range m.keys {
			h := hash(m.keyType, m.keyType, k)
			m.hidx[h] = append(m.hidx[h], i)
		}
	}
}

func (m *omap) clear() {
	if m == nil {
		return
	}
	m.keys, m.vals = nil, nil
	m.reindex()
}

func (m *omap) len() int {
	if m == nil {
		return 0
	}
	return len(m.keys)
}

// omapIter iterates over a snapshot of the keys taken when the range started,
// skipping keys deleted meanwhile and reading the current value (both allowed
// by the Go specification). order is a permutation of the snapshot.
type omapIter struct {
	m    *omap
	keys []value
	pos  int
}

func (it *omapIter) next() tuple {
	for it.pos < len(it.keys) {
		k := it.keys[it.pos]
		it.pos++
		if v, ok := it.m.lookup(k); ok {
			return tuple{true, k, v}
		}
	}
	return tuple{false, nil, nil}
}
