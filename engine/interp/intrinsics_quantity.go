package interp

// resource.Quantity model (DESIGN §3.6): every Quantity the engine touches is
// kept normalised as structure{i{value=milli-units, scale=-3}, d{nil}, s="", Format}
// and all arithmetic is exact integer arithmetic on the milli value.
// Contract: |value| small enough that milli-units fit int64, no inf.Dec form.

import (
	"go/token"
	"go/types"
	"math/big"

	"fmt"
	"strings"

	"golang.org/x/tools/go/ssa"
)

const qPkg = "k8s.io/apimachinery/pkg/api/resource."

func pow10(n int) int64 {
	r := int64(1)
	for k := 0; k < n; k++ {
		r *= 10
	}
	return r
}

// qMilli reads the milli value of a Quantity structure.
func (i *interpreter) qMilli(q value) value {
	s := q.(structure)
	amt := s[0].(structure)
	d := s[1].(structure)
	if p, ok := d[0].(*value); ok && p != nil {
		panic(unsupported("Quantity in inf.Dec form"))
	}
	scale := asInt64(amt[1])
	v := amt[0]
	switch {
	case scale == -3:
		return v
	case scale > -3 && scale <= 15:
		return binop(i, token.MUL, types.Typ[types.Int64], v, pow10(int(scale)+3))
	case scale < -3 && scale >= -12:
		if isSym(v) {
			panic(unsupported("symbolic Quantity with sub-milli scale"))
		}
		p := pow10(int(-3 - scale))
		x := asInt64(v)
		q := x / p
		if x%p > 0 { // resource rounds up
			q++
		}
		return q
	}
	panic(unsupported("Quantity scale %d outside the model", scale))
}

func mkQuantity(milli value, format value) structure {
	if format == nil {
		format = "DecimalSI"
	}
	return structure{structure{milli, int32(-3)}, structure{(*value)(nil)}, "", format}
}

// parseQuantity parses the Kubernetes quantity syntax into exact milli-units.
// ok=false: syntax error. Values finer than a milli-unit or beyond int64 are unsupported.
func parseQuantity(str string) (milli int64, format string, ok bool) {
	s := strings.TrimSpace(str)
	if s == "" {
		return 0, "", false
	}
	// split number / suffix
	k := 0
	if k < len(s) && (s[k] == '+' || s[k] == '-') {
		k++
	}
	digits := false
	for k < len(s) && (s[k] >= '0' && s[k] <= '9' || s[k] == '.') {
		if s[k] != '.' {
			digits = true
		}
		k++
	}
	if !digits {
		return 0, "", false
	}
	num, suf := s[:k], s[k:]
	exp10 := 0
	mult := big.NewInt(1)
	format = "DecimalSI"
	switch suf {
	case "":
	case "n":
		exp10 = -9
	case "u":
		exp10 = -6
	case "m":
		exp10 = -3
	case "k":
		exp10 = 3
	case "M":
		exp10 = 6
	case "G":
		exp10 = 9
	case "T":
		exp10 = 12
	case "P":
		exp10 = 15
	case "E":
		exp10 = 18
	case "Ki", "Mi", "Gi", "Ti", "Pi", "Ei":
		format = "BinarySI"
		sh := map[byte]uint{'K': 10, 'M': 20, 'G': 30, 'T': 40, 'P': 50, 'E': 60}[suf[0]]
		mult.Lsh(mult, sh)
	default:
		if (suf[0] == 'e' || suf[0] == 'E') && len(suf) > 1 {
			var e int
			if _, err := fmt.Sscanf(suf[1:], "%d", &e); err != nil || fmt.Sprintf("%d", e) != strings.TrimPrefix(suf[1:], "+") {
				return 0, "", false
			}
			exp10 = e
			format = "DecimalExponent"
		} else {
			return 0, "", false
		}
	}
	if strings.Count(num, ".") > 1 {
		return 0, "", false
	}
	frac := 0
	if p := strings.IndexByte(num, '.'); p >= 0 {
		frac = len(num) - p - 1
		num = num[:p] + num[p+1:]
	}
	n, good := new(big.Int).SetString(num, 10)
	if !good {
		return 0, "", false
	}
	// milli = n * mult * 10^(exp10 - frac + 3)
	n.Mul(n, mult)
	e := exp10 - frac + 3
	if e >= 0 {
		n.Mul(n, new(big.Int).Exp(big.NewInt(10), big.NewInt(int64(e)), nil))
	} else {
		d := new(big.Int).Exp(big.NewInt(10), big.NewInt(int64(-e)), nil)
		q, r := new(big.Int).QuoRem(n, d, new(big.Int))
		if r.Sign() != 0 {
			panic(unsupported("Quantity %q is finer than a milli-unit", str))
		}
		n = q
	}
	if !n.IsInt64() {
		panic(unsupported("Quantity %q does not fit int64 milli-units", str))
	}
	return n.Int64(), format, true
}

func (i *interpreter) quantityCmp(x, y value) value {
	a, b := i.qMilli(x), i.qMilli(y)
	lt := binop(i, token.LSS, types.Typ[types.Int64], a, b)
	gt := binop(i, token.GTR, types.Typ[types.Int64], a, b)
	if !isSym(lt) && !isSym(gt) {
		switch {
		case lt.(bool):
			return -1
		case gt.(bool):
			return 1
		}
		return 0
	}
	t := tIte(boolTerm(lt), intConst64(-1), tIte(boolTerm(gt), intConst64(1), intConst64(0)))
	t.lo, t.hi = big.NewInt(-1), big.NewInt(1)
	return symInt{t, types.Int}
}

// ceilDivConst returns ceil(x / d) for d > 0.
func (i *interpreter) ceilDivConst(x value, d int64) value {
	neg := unopNeg(i, x)
	return unopNeg(i, i.floorDivConst(neg, d))
}

// awayDivConst returns x/d rounded away from zero (d > 0), which is how
// resource.Quantity scales down (negativeScaleInt64).
func (i *interpreter) awayDivConst(x value, d int64) value {
	up := i.ceilDivConst(x, d)
	down := i.floorDivConst(x, d)
	switch c := binop(i, token.GEQ, types.Typ[types.Int64], x, int64(0)).(type) {
	case bool:
		if c {
			return up
		}
		return down
	case symBool:
		v, _ := i.iteValue(c.t, up, down)
		return v
	}
	panic("awayDivConst")
}

func unopNeg(i *interpreter, x value) value {
	return binop(i, token.SUB, types.Typ[types.Int64], int64(0), x)
}

func init() {
	registerIntrinsic(rtPkg+"Quantity", func(i *interpreter, fr *frame, fn *ssa.Function, a []value) value {
		// whole units in [lo,hi]
		v := i.newSymInt(a[0].(string), types.Int64, big.NewInt(asInt64(a[1])), big.NewInt(asInt64(a[2])))
		return mkQuantity(binop(i, token.MUL, types.Typ[types.Int64], v, int64(1000)), nil)
	})
	registerIntrinsic(rtPkg+"MilliQuantity", func(i *interpreter, fr *frame, fn *ssa.Function, a []value) value {
		v := i.newSymInt(a[0].(string), types.Int64, big.NewInt(asInt64(a[1])), big.NewInt(asInt64(a[2])))
		return mkQuantity(v, nil)
	})
	registerIntrinsic(qPkg+"MustParse", func(i *interpreter, fr *frame, fn *ssa.Function, a []value) value {
		m, f, ok := parseQuantity(a[0].(string))
		if !ok {
			panic(targetPanic{"cannot parse quantity " + a[0].(string)})
		}
		return mkQuantity(m, f)
	})
	registerIntrinsic(qPkg+"ParseQuantity", func(i *interpreter, fr *frame, fn *ssa.Function, a []value) value {
		m, f, ok := parseQuantity(a[0].(string))
		if !ok {
			return tuple{mkQuantity(int64(0), nil), i.newError("quantities must match the regular expression")}
		}
		return tuple{mkQuantity(m, f), iface{}}
	})
	newQ := func(mult func(i *interpreter, a []value) value, fmtIdx int) intrinsic {
		return func(i *interpreter, fr *frame, fn *ssa.Function, a []value) value {
			var cell value = mkQuantity(mult(i, a), a[fmtIdx])
			return &cell
		}
	}
	registerIntrinsic(qPkg+"NewQuantity", newQ(func(i *interpreter, a []value) value {
		return binop(i, token.MUL, types.Typ[types.Int64], a[0], int64(1000))
	}, 1))
	registerIntrinsic(qPkg+"NewMilliQuantity", newQ(func(i *interpreter, a []value) value { return a[0] }, 1))
	registerIntrinsic(qPkg+"NewScaledQuantity", func(i *interpreter, fr *frame, fn *ssa.Function, a []value) value {
		sc := asInt64(a[1])
		if sc < -3 || sc > 15 {
			panic(unsupported("NewScaledQuantity scale %d", sc))
		}
		var cell value = mkQuantity(binop(i, token.MUL, types.Typ[types.Int64], a[0], pow10(int(sc)+3)), nil)
		return &cell
	})

	recv := func(a []value) structure { return (*a[0].(*value)).(structure) }
	setMilli := func(a []value, m value) {
		p := a[0].(*value)
		old := (*p).(structure)
		*p = mkQuantity(m, old[3])
	}
	registerIntrinsic("(*"+qPkg+"Quantity).Add", func(i *interpreter, fr *frame, fn *ssa.Function, a []value) value {
		setMilli(a, binop(i, token.ADD, types.Typ[types.Int64], i.qMilli(recv(a)), i.qMilli(a[1])))
		return nil
	})
	registerIntrinsic("(*"+qPkg+"Quantity).Sub", func(i *interpreter, fr *frame, fn *ssa.Function, a []value) value {
		setMilli(a, binop(i, token.SUB, types.Typ[types.Int64], i.qMilli(recv(a)), i.qMilli(a[1])))
		return nil
	})
	registerIntrinsic("(*"+qPkg+"Quantity).Neg", func(i *interpreter, fr *frame, fn *ssa.Function, a []value) value {
		setMilli(a, unopNeg(i, i.qMilli(recv(a))))
		return nil
	})
	registerIntrinsic("(*"+qPkg+"Quantity).Mul", func(i *interpreter, fr *frame, fn *ssa.Function, a []value) value {
		setMilli(a, binop(i, token.MUL, types.Typ[types.Int64], i.qMilli(recv(a)), a[1]))
		return true
	})
	registerIntrinsic("(*"+qPkg+"Quantity).Set", func(i *interpreter, fr *frame, fn *ssa.Function, a []value) value {
		setMilli(a, binop(i, token.MUL, types.Typ[types.Int64], a[1], int64(1000)))
		return nil
	})
	registerIntrinsic("(*"+qPkg+"Quantity).SetMilli", func(i *interpreter, fr *frame, fn *ssa.Function, a []value) value {
		setMilli(a, a[1])
		return nil
	})
	registerIntrinsic("(*"+qPkg+"Quantity).Cmp", func(i *interpreter, fr *frame, fn *ssa.Function, a []value) value {
		return i.quantityCmp(recv(a), a[1])
	})
	registerIntrinsic("(*"+qPkg+"Quantity).CmpInt64", func(i *interpreter, fr *frame, fn *ssa.Function, a []value) value {
		return i.quantityCmp(recv(a), mkQuantity(binop(i, token.MUL, types.Typ[types.Int64], a[1], int64(1000)), nil))
	})
	registerIntrinsic("("+qPkg+"Quantity).Equal", func(i *interpreter, fr *frame, fn *ssa.Function, a []value) value {
		return binop(i, token.EQL, types.Typ[types.Int64], i.qMilli(a[0]), i.qMilli(a[1]))
	})
	registerIntrinsic("(*"+qPkg+"Quantity).IsZero", func(i *interpreter, fr *frame, fn *ssa.Function, a []value) value {
		return binop(i, token.EQL, types.Typ[types.Int64], i.qMilli(recv(a)), int64(0))
	})
	registerIntrinsic("(*"+qPkg+"Quantity).Sign", func(i *interpreter, fr *frame, fn *ssa.Function, a []value) value {
		return i.quantityCmp(recv(a), mkQuantity(int64(0), nil))
	})
	registerIntrinsic("(*"+qPkg+"Quantity).Value", func(i *interpreter, fr *frame, fn *ssa.Function, a []value) value {
		return i.awayDivConst(i.qMilli(recv(a)), 1000)
	})
	registerIntrinsic("(*"+qPkg+"Quantity).MilliValue", func(i *interpreter, fr *frame, fn *ssa.Function, a []value) value {
		return i.qMilli(recv(a))
	})
	registerIntrinsic("(*"+qPkg+"Quantity).ScaledValue", func(i *interpreter, fr *frame, fn *ssa.Function, a []value) value {
		sc := asInt64(a[1])
		m := i.qMilli(recv(a))
		switch {
		case sc == -3:
			return m
		case sc > -3 && sc <= 15:
			return i.awayDivConst(m, pow10(int(sc)+3))
		case sc < -3 && sc >= -9:
			return binop(i, token.MUL, types.Typ[types.Int64], m, pow10(int(-3-sc)))
		}
		panic(unsupported("ScaledValue(%d)", sc))
	})
	registerIntrinsic("(*"+qPkg+"Quantity).AsInt64", func(i *interpreter, fr *frame, fn *ssa.Function, a []value) value {
		m := i.qMilli(recv(a))
		if isSym(m) {
			panic(unsupported("AsInt64 on a symbolic Quantity"))
		}
		if asInt64(m)%1000 != 0 {
			return tuple{int64(0), false}
		}
		return tuple{asInt64(m) / 1000, true}
	})
	registerIntrinsic("("+qPkg+"Quantity).DeepCopy", func(i *interpreter, fr *frame, fn *ssa.Function, a []value) value {
		s := a[0].(structure)
		return mkQuantity(i.qMilli(s), s[3])
	})
	registerIntrinsic("(*"+qPkg+"Quantity).DeepCopyInto", func(i *interpreter, fr *frame, fn *ssa.Function, a []value) value {
		s := recv(a)
		*a[1].(*value) = mkQuantity(i.qMilli(s), s[3])
		return nil
	})
	registerIntrinsic("(*"+qPkg+"Quantity).AsApproximateFloat64", func(i *interpreter, fr *frame, fn *ssa.Function, a []value) value {
		m := i.qMilli(recv(a))
		if s, ok := m.(symInt); ok {
			// exactly milli/1000 for |milli| < 2^53: comparisons with constants are decided with integers
			return symFloat{t: &Term{S: "(fp.div RNE ((_ to_fp 11 53) RNE (to_real " + s.t.S + ")) " + fpConst(1000).S + ")", Sort: SFP}, num: s.t, den: 1000}
		}
		return float64(asInt64(m)) / 1000
	})
	registerIntrinsic("(*"+qPkg+"Quantity).String", func(i *interpreter, fr *frame, fn *ssa.Function, a []value) value {
		m := i.qMilli(recv(a))
		if isSym(m) {
			return "<symbolic quantity>"
		}
		if asInt64(m)%1000 == 0 {
			return fmt.Sprintf("%d", asInt64(m)/1000)
		}
		return fmt.Sprintf("%dm", asInt64(m))
	})
	registerIntrinsic("(*"+qPkg+"Quantity).ToDec", func(i *interpreter, fr *frame, fn *ssa.Function, a []value) value {
		panic(unsupported("Quantity.ToDec"))
	})
}
