package interp

// Path exploration by deterministic re-execution with a decision prefix
// (DESIGN §2.3, A.2).

import (
	"fmt"
	"go/token"
	"io"
	"math"
	"os"
	"runtime"
	"runtime/debug"
	"sort"
	"strings"
	"sync"
	"time"

	"golang.org/x/tools/go/ssa"
)

type Config struct {
	Workers        int
	PathBudget     int   // max paths per harness (exceeding = inconclusive)
	InstrFuse      int64 // max SSA instructions per path (exceeding = inconclusive)
	SolverArgv     []string
	QueryTimeoutMs int
	KnownStatus    map[string]string // finding id -> "known" | "fixed"
	SamplesPer     int               // path models kept per harness (replayed natively)
	Tier           string
	SolverLog      io.Writer
	Trace          bool
	Verbose        bool
	MaxViolations  int
	NoopFuncs      func(name string) bool
	PureFuncs      func(name string) bool
}

type Violation struct {
	Harness string         `json:"harness"`
	Kind    string         `json:"kind"` // assert | panic
	Msg     string         `json:"msg"`
	Pos     string         `json:"pos"`
	Finding string         `json:"finding,omitempty"` // known-finding id whose signature the model satisfies
	Model   map[string]any `json:"model"`
	Count   int            `json:"count"`
	Stack   []string       `json:"stack,omitempty"`
}

type PathSample struct {
	Harness  string         `json:"harness"`
	Outcome  string         `json:"outcome"`
	Model    map[string]any `json:"model"`
	Reach    []string       `json:"reach,omitempty"`
	Observes []Obs          `json:"observes,omitempty"`
	Asserts  int            `json:"asserts"`
	PathCond []string       `json:"path_condition,omitempty"`
}

type Obs struct {
	Label string `json:"label"`
	Value string `json:"value"`
}

type FuncStat struct {
	Instrs  int64 `json:"instrs"`
	Entered int64 `json:"entered"`
}

type Stats struct {
	Paths           int
	Outcomes        map[string]int
	Forks           map[string]int
	ForkSites       map[string]int
	Reach           map[string]int
	AssertSite      map[string]int
	Funcs           map[string]*FuncStat
	Intrinsics      map[string]int
	Instrs          int64
	WrapTerms       int
	Merges          int
	PureMerges      int
	PureAborts      int
	PureMergedPaths int
	Asserts         int
	Obligation      int // solver-discharged assertion queries
	Solver          SolverStats
}

func newStats() *Stats {
	return &Stats{Outcomes: map[string]int{}, Forks: map[string]int{}, ForkSites: map[string]int{}, Reach: map[string]int{},
		AssertSite: map[string]int{}, Funcs: map[string]*FuncStat{}, Intrinsics: map[string]int{}}
}

func (s *Stats) merge(o *Stats) {
	s.Paths += o.Paths
	for k, v := range o.Outcomes {
		s.Outcomes[k] += v
	}
	for k, v := range o.Forks {
		s.Forks[k] += v
	}
	for k, v := range o.ForkSites {
		s.ForkSites[k] += v
	}
	for k, v := range o.Reach {
		s.Reach[k] += v
	}
	for k, v := range o.AssertSite {
		s.AssertSite[k] += v
	}
	for k, v := range o.Funcs {
		f := s.Funcs[k]
		if f == nil {
			f = &FuncStat{}
			s.Funcs[k] = f
		}
		f.Instrs += v.Instrs
		f.Entered += v.Entered
	}
	for k, v := range o.Intrinsics {
		s.Intrinsics[k] += v
	}
	s.Instrs += o.Instrs
	s.WrapTerms += o.WrapTerms
	s.Merges += o.Merges
	s.PureMerges += o.PureMerges
	s.PureAborts += o.PureAborts
	s.PureMergedPaths += o.PureMergedPaths
	s.Asserts += o.Asserts
	s.Obligation += o.Obligation
	s.Solver.Sat += o.Solver.Sat
	s.Solver.Unsat += o.Solver.Unsat
	s.Solver.Unknown += o.Solver.Unknown
	s.Solver.Errors += o.Solver.Errors
	s.Solver.Time += o.Solver.Time
}

type HarnessResult struct {
	Name         string
	Stats        *Stats
	Violations   []*Violation
	Inconclusive []string
	Samples      []PathSample
	Wall         time.Duration
	Exhausted    bool // path budget hit
}

type inputDecl struct {
	Name string
	Sort Sort
	Kind string // bool | int | float
}

// pathCtx is the per-path symbolic state.
type pathCtx struct {
	eng         *Engine
	h           *harnessRun
	solver      *Solver
	prefix      []int
	taken       []int
	inputs      []inputDecl
	counts      map[string]int
	conc        map[string]any // concrete inputs (Choice values)
	pc          []string
	reach       map[string]bool
	obs         []Obs
	obsRaw      []obsRaw
	subs        []*subSearch
	pcSet       map[string]bool
	taint       string
	pureSkip    map[*ssa.Function]int
	sigs        map[string]*Term // known-finding signatures declared so far on this path
	uuidSeq     int
	uniqueTab   map[string]*value
	sigOrd      []string
	asserts     int
	atoms       map[string]*atomInfo
	atomOrd     []string
	fresh       int
	stats       *Stats
	instrs      int64
	incon       []string
	expectPanic bool
}

type atomInfo struct {
	idx   int
	ok    *Term
	val   *Term
	canon *Term
}

type pathEnd struct{ outcome string }

type harnessRun struct {
	fn       *ssa.Function
	mu       sync.Mutex
	work     [][]int
	inflight int
	cond     *sync.Cond
	res      *HarnessResult
	paths    int
	vioKey   map[string]*Violation
	stop     bool
}

type Engine struct {
	Prog      *ssa.Program
	Cfg       Config
	Fset      *token.FileSet
	pureCache sync.Map
}

func (e *Engine) RunHarness(fn *ssa.Function) *HarnessResult {
	t0 := time.Now()
	h := &harnessRun{fn: fn, res: &HarnessResult{Name: fn.Name(), Stats: newStats()}, vioKey: map[string]*Violation{}}
	h.cond = sync.NewCond(&h.mu)
	h.work = [][]int{{}}
	var wg sync.WaitGroup
	n := e.Cfg.Workers
	if n < 1 {
		n = 1
	}
	for w := 0; w < n; w++ {
		wg.Add(1)
		go func() {
			defer wg.Done()
			e.worker(h)
		}()
	}
	wg.Wait()
	h.res.Wall = time.Since(t0)
	sort.Slice(h.res.Violations, func(i, j int) bool { return h.res.Violations[i].Pos < h.res.Violations[j].Pos })
	return h.res
}

func (e *Engine) worker(h *harnessRun) {
	solver, err := NewSolver(e.Cfg.SolverArgv, e.Cfg.QueryTimeoutMs, e.Cfg.SolverLog)
	if err != nil {
		h.mu.Lock()
		h.res.Inconclusive = append(h.res.Inconclusive, "cannot start solver: "+err.Error())
		h.mu.Unlock()
		return
	}
	local := newStats()
	defer func() {
		solver.Close()
		local.Solver.Sat += solver.Stats.Sat
		local.Solver.Unsat += solver.Stats.Unsat
		local.Solver.Unknown += solver.Stats.Unknown
		local.Solver.Errors += solver.Stats.Errors
		local.Solver.Time += solver.Stats.Time
		h.mu.Lock()
		h.res.Stats.merge(local)
		h.mu.Unlock()
	}()
	for {
		h.mu.Lock()
		for len(h.work) == 0 && h.inflight > 0 && !h.stop {
			h.cond.Wait()
		}
		if h.stop || len(h.work) == 0 {
			h.mu.Unlock()
			h.cond.Broadcast()
			return
		}
		if h.paths >= e.Cfg.PathBudget {
			h.stop = true
			h.res.Exhausted = true
			h.res.Inconclusive = append(h.res.Inconclusive, fmt.Sprintf("path budget %d exhausted (%d prefixes pending)", e.Cfg.PathBudget, len(h.work)))
			h.mu.Unlock()
			h.cond.Broadcast()
			return
		}
		prefix := h.work[len(h.work)-1]
		h.work = h.work[:len(h.work)-1]
		h.inflight++
		h.paths++
		h.mu.Unlock()

		e.runPath(h, solver, prefix, local)
		if solver.Dead {
			// the solver was killed by the watchdog: start a fresh one for the next path
			local.Solver.Sat += solver.Stats.Sat
			local.Solver.Unsat += solver.Stats.Unsat
			local.Solver.Unknown += solver.Stats.Unknown
			local.Solver.Errors += solver.Stats.Errors
			local.Solver.Time += solver.Stats.Time
			solver.Close()
			ns, err := NewSolver(e.Cfg.SolverArgv, e.Cfg.QueryTimeoutMs, e.Cfg.SolverLog)
			if err != nil {
				h.mu.Lock()
				h.res.Inconclusive = append(h.res.Inconclusive, "cannot restart solver: "+err.Error())
				h.inflight--
				h.mu.Unlock()
				h.cond.Broadcast()
				return
			}
			solver = ns
		}

		h.mu.Lock()
		h.inflight--
		h.mu.Unlock()
		h.cond.Broadcast()
	}
}

func (e *Engine) runPath(h *harnessRun, solver *Solver, prefix []int, local *Stats) {
	c := &pathCtx{eng: e, h: h, solver: solver, prefix: prefix, counts: map[string]int{}, conc: map[string]any{},
		reach: map[string]bool{}, sigs: map[string]*Term{}, atoms: map[string]*atomInfo{}, stats: local, pureSkip: map[*ssa.Function]int{}}
	i := newInterpreter(e, c)
	solver.Push()
	outcome := "ok"
	var panicMsg string
	var stack []string
	func() {
		defer func() {
			r := recover()
			if r == nil {
				return
			}
			switch p := r.(type) {
			case pathEnd:
				outcome = p.outcome
			case targetPanic:
				outcome = "panic"
				panicMsg = "panic: " + i.panicString(p.v)
				stack = i.lastStack
			case unsupportedErr:
				outcome = "unsupported"
				panicMsg = p.msg + i.where()
			case runtime.Error:
				msg := p.Error()
				if isTargetRuntimeError(msg) {
					outcome = "panic"
					panicMsg = "panic: " + msg
					stack = i.lastStack
				} else {
					outcome = "unsupported"
					panicMsg = "engine error: " + msg + i.where() + "\n" + string(debug.Stack())
				}
			default:
				outcome = "unsupported"
				panicMsg = fmt.Sprintf("engine error: %v%s\n%s", r, i.where(), debug.Stack())
			}
		}()
		call(i, nil, token.NoPos, h.fn, nil)
	}()
	if outcome == "panic" {
		if c.expectPanic {
			outcome = "expected_panic"
		} else {
			c.reportFailure("panic", panicMsg, i.lastPos, nil, stack)
		}
	}
	if outcome == "unsupported" {
		c.incon = append(c.incon, panicMsg)
	}
	if c.taint != "" && (outcome == "ok" || outcome == "expected_panic") {
		c.incon = append(c.incon, "path not covered by the string model: "+c.taint)
		local.Outcomes["tainted"]++
	}
	// keep a model of the completed path (vacuity witness / translation validation / sample)
	var sample *PathSample
	if outcome == "ok" || outcome == "panic" || outcome == "expected_panic" {
		need := false
		h.mu.Lock()
		if len(h.res.Samples) < e.Cfg.SamplesPer {
			need = true
		} else {
			for r := range c.reach {
				if h.res.Stats.Reach[r]+local.Reach[r] == 0 {
					need = true
				}
			}
		}
		h.mu.Unlock()
		if need {
			names := c.inputNames()
			for _, o := range c.obsRaw {
				if o.name != "" {
					names = append(names, smtName(o.name))
				}
			}
			if res, m := solver.CheckModel(names); res == Sat {
				sample = &PathSample{Harness: h.fn.Name(), Outcome: outcome, Model: c.decodeModel(m), Observes: c.decodeObs(m), Asserts: c.asserts, PathCond: c.pcSample()}
				for r := range c.reach {
					sample.Reach = append(sample.Reach, r)
				}
				sort.Strings(sample.Reach)
			}
		}
	}
	solver.Pop()
	local.Paths++
	local.Outcomes[outcome]++
	local.Instrs += c.instrs
	local.Asserts += c.asserts
	for r := range c.reach {
		local.Reach[r]++
	}
	h.mu.Lock()
	if sample != nil {
		h.res.Samples = append(h.res.Samples, *sample)
	}
	for _, m := range c.incon {
		if len(h.res.Inconclusive) < 20 {
			h.res.Inconclusive = append(h.res.Inconclusive, m)
		}
	}
	h.mu.Unlock()
	if e.Cfg.Verbose {
		fmt.Fprintf(os.Stderr, "  path %v -> %s %s (instrs=%d)\n", c.taken, outcome, firstLine(panicMsg), c.instrs)
	}
}

func firstLine(s string) string {
	if i := strings.IndexByte(s, '\n'); i >= 0 {
		return s[:i]
	}
	return s
}

func isTargetRuntimeError(msg string) bool {
	return strings.Contains(msg, "nil pointer dereference") || strings.Contains(msg, "index out of range") ||
		strings.Contains(msg, "slice bounds out of range") || strings.Contains(msg, "divide by zero") ||
		strings.Contains(msg, "makeslice: len out of range")
}

func (c *pathCtx) pcSample() []string {
	out := []string{}
	n := 0
	for _, p := range c.pc {
		if n += len(p); n > 2000 {
			out = append(out, "…")
			break
		}
		out = append(out, p)
	}
	return out
}

func (c *pathCtx) decodeObs(m map[string]string) []Obs {
	var out []Obs
	for _, o := range c.obsRaw {
		if o.name == "" {
			out = append(out, Obs{o.label, o.text})
			continue
		}
		v := decodeSMTValue(m[smtName(o.name)], o.sort)
		if fm, ok := v.(map[string]any); ok {
			if bits, ok := fm["float64bits"].(string); ok {
				var u uint64
				fmt.Sscan(bits, &u)
				v = math.Float64frombits(u)
			}
		}
		out = append(out, Obs{o.label, fmt.Sprint(v)})
	}
	return out
}

func (c *pathCtx) inputNames() []string {
	names := make([]string, len(c.inputs))
	for k, in := range c.inputs {
		names[k] = smtName(in.Name)
	}
	return names
}

func smtName(n string) string { return "|" + n + "|" }

func (c *pathCtx) assertPC(t *Term) {
	if t.S == "true" {
		return
	}
	c.solver.Assert(t.S)
	c.pc = append(c.pc, t.S)
	if len(c.subs) == 0 {
		if c.pcSet == nil {
			c.pcSet = map[string]bool{}
		}
		c.pcSet[t.S] = true
	}
}

// known decides a condition syntactically from literals already asserted on
// the path (or in the running summaries): +1 implied, -1 refuted, 0 unknown.
func (c *pathCtx) known(t *Term) int {
	n := tNot(t).S
	if c.pcSet[t.S] {
		return 1
	}
	if c.pcSet[n] {
		return -1
	}
	for _, sub := range c.subs {
		for _, k := range sub.conds {
			if k.S == t.S {
				return 1
			}
			if k.S == n {
				return -1
			}
		}
	}
	return 0
}

func (c *pathCtx) feasible(a *Term) bool {
	switch c.known(a) {
	case 1:
		return true
	case -1:
		return false
	}
	switch c.solver.Check(a.S) {
	case Sat, Unknown:
		return true
	}
	return false
}

func (c *pathCtx) posString(pos token.Pos) string {
	if pos == token.NoPos {
		return "?"
	}
	p := c.eng.Fset.Position(pos)
	return fmt.Sprintf("%s:%d", trimRepo(p.Filename), p.Line)
}

func trimRepo(f string) string {
	if i := strings.Index(f, "/repo/"); i >= 0 {
		return f[i+6:]
	}
	if i := strings.Index(f, "/pkg/mod/"); i >= 0 {
		return f[i+9:]
	}
	return f
}

// fork picks one of alts (nil term = unconditional alternative), replaying the
// decision prefix first and otherwise asking the solver which are feasible.
func (c *pathCtx) fork(kind string, pos token.Pos, alts []*Term) int {
	if sub := c.sub(); sub != nil {
		return c.subFork(sub, kind, pos, alts)
	}
	d := len(c.taken)
	if d < len(c.prefix) {
		k := c.prefix[d]
		if k >= len(alts) {
			panic(unsupported("non-deterministic re-execution: decision %d has %d alternatives, prefix wants %d", d, len(alts), k))
		}
		if alts[k] != nil {
			c.assertPC(alts[k])
		}
		c.taken = append(c.taken, k)
		return k
	}
	c.stats.Forks[kind]++
	c.stats.ForkSites[kind+"@"+c.posString(pos)]++
	var feas []int
	for k, a := range alts {
		if a == nil || a.S == "true" {
			feas = append(feas, k)
			continue
		}
		if a.S == "false" {
			continue
		}
		// binary shortcut: pc is satisfiable, so if every earlier alternative is infeasible the last one is feasible
		if k == len(alts)-1 && len(feas) == 0 {
			feas = append(feas, k)
			continue
		}
		if c.feasible(a) {
			feas = append(feas, k)
		}
	}
	if len(feas) == 0 {
		panic(pathEnd{"infeasible"})
	}
	k := feas[0]
	if len(feas) > 1 {
		c.h.mu.Lock()
		for _, j := range feas[1:] {
			child := make([]int, len(c.taken)+1)
			copy(child, c.taken)
			child[len(c.taken)] = j
			c.h.work = append(c.h.work, child)
		}
		c.h.mu.Unlock()
		c.h.cond.Broadcast()
	}
	if alts[k] != nil {
		c.assertPC(alts[k])
	}
	c.taken = append(c.taken, k)
	return k
}

// subFork is fork inside a pure-callee summary: decisions are local to the summary.
func (c *pathCtx) subFork(sub *subSearch, kind string, pos token.Pos, alts []*Term) int {
	if kind == "choice" {
		panic(pureAbort{"verifrt.Choice inside a summarised callee"})
	}
	d := len(sub.taken)
	take := func(k int) int {
		if alts[k] != nil && alts[k].S != "true" {
			c.solver.Assert(alts[k].S)
			sub.conds = append(sub.conds, alts[k])
		}
		sub.taken = append(sub.taken, k)
		return k
	}
	if d < len(sub.prefix) {
		return take(sub.prefix[d])
	}
	var feas []int
	for k, a := range alts {
		if a == nil || a.S == "true" {
			feas = append(feas, k)
			continue
		}
		if a.S == "false" {
			continue
		}
		if k == len(alts)-1 && len(feas) == 0 {
			feas = append(feas, k)
			continue
		}
		if c.feasible(a) {
			feas = append(feas, k)
		}
	}
	if len(feas) == 0 {
		panic(pureAbort{"no feasible alternative"})
	}
	for _, j := range feas[1:] {
		child := make([]int, len(sub.taken)+1)
		copy(child, sub.taken)
		child[len(sub.taken)] = j
		sub.children = append(sub.children, child)
	}
	return take(feas[0])
}

// branch decides a symbolic condition.
func (c *pathCtx) branch(pos token.Pos, cond *Term) bool {
	return c.fork("if", pos, []*Term{cond, tNot(cond)}) == 0
}

// concretizeBool turns a possibly symbolic bool into a concrete one by forking.
func (c *pathCtx) concretizeBool(pos token.Pos, v value) bool {
	switch v := v.(type) {
	case bool:
		return v
	case symBool:
		return c.fork("bool", pos, []*Term{v.t, tNot(v.t)}) == 0
	}
	panic(fmt.Sprintf("concretizeBool: %T", v))
}

// concretizeInt forks over the values lo..hi of a symbolic int (used for
// indices and lengths, whose range is small by construction) plus one
// out-of-range alternative which returns ok=false.
func (c *pathCtx) concretizeInt(pos token.Pos, v value, lo, hi int64) (int64, bool) {
	s, ok := v.(symInt)
	if !ok {
		x := asInt64(v)
		return x, x >= lo && x <= hi
	}
	if hi-lo > 64 {
		panic(unsupported("concretizing a symbolic integer over a range of %d values", hi-lo+1))
	}
	var alts []*Term
	for x := lo; x <= hi; x++ {
		alts = append(alts, tCmp("=", s.t, intConst64(x)))
	}
	alts = append(alts, tOr(tCmp("<", s.t, intConst64(lo)), tCmp(">", s.t, intConst64(hi))))
	k := c.fork("index", pos, alts)
	if k == len(alts)-1 {
		return 0, false
	}
	return lo + int64(k), true
}

func (c *pathCtx) newInput(label string, sort Sort, kind string) *Term {
	c.noEffect("creation of a symbolic input")
	k := c.counts[label]
	c.counts[label] = k + 1
	name := fmt.Sprintf("%s#%d", label, k)
	if strings.ContainsAny(name, "|\\") {
		panic(unsupported("bad input label %q", label))
	}
	var srt string
	switch sort {
	case SBool:
		srt = "Bool"
	case SInt:
		srt = "Int"
	case SFP:
		srt = "(_ FloatingPoint 11 53)"
	}
	c.solver.Declare("(declare-const " + smtName(name) + " " + srt + ")")
	c.inputs = append(c.inputs, inputDecl{name, sort, kind})
	return &Term{S: smtName(name), Sort: sort}
}

func (c *pathCtx) concreteInput(label string, v any) {
	c.noEffect("creation of an input")
	k := c.counts[label]
	c.counts[label] = k + 1
	c.conc[fmt.Sprintf("%s#%d", label, k)] = v
}

func (c *pathCtx) decodeModel(m map[string]string) map[string]any {
	out := map[string]any{}
	for k, v := range c.conc {
		out[k] = v
	}
	for _, in := range c.inputs {
		raw, ok := m[smtName(in.Name)]
		if !ok {
			continue
		}
		out[in.Name] = decodeSMTValue(raw, in.Sort)
	}
	return out
}

// reportFailure poses the violation queries for a failed obligation whose
// negation is ncond (nil = the path condition alone, e.g. a panic).
func (c *pathCtx) reportFailure(kind, msg string, pos token.Pos, ncond *Term, stack []string) {
	var known []string
	for _, id := range c.sigOrd {
		if c.eng.Cfg.KnownStatus[id] == "known" {
			known = append(known, id)
		}
	}
	var extra []string
	if ncond != nil {
		extra = append(extra, ncond.S)
	}
	// (1) a violation no listed known finding covers
	q := append([]string{}, extra...)
	for _, id := range known {
		q = append(q, tNot(c.sigs[id]).S)
	}
	c.stats.Obligation++
	res, m := c.solver.CheckModel(c.inputNames(), q...)
	switch res {
	case Sat:
		c.record(&Violation{Harness: c.h.fn.Name(), Kind: kind, Msg: msg, Pos: c.posString(pos), Model: c.decodeModel(m), Stack: stack})
	case Unknown:
		c.incon = append(c.incon, fmt.Sprintf("solver unknown on obligation %q at %s", msg, c.posString(pos)))
	}
	// (2) per known finding: does it reproduce here?
	for _, id := range known {
		qq := append(append([]string{}, extra...), c.sigs[id].S)
		c.stats.Obligation++
		res, m := c.solver.CheckModel(c.inputNames(), qq...)
		if res == Sat {
			c.record(&Violation{Harness: c.h.fn.Name(), Kind: kind, Msg: msg, Pos: c.posString(pos), Finding: id, Model: c.decodeModel(m), Stack: stack})
		}
	}
}

func (c *pathCtx) record(v *Violation) {
	key := v.Pos + "|" + v.Finding + "|" + v.Kind
	c.h.mu.Lock()
	defer c.h.mu.Unlock()
	if old := c.h.vioKey[key]; old != nil {
		old.Count++
		return
	}
	v.Count = 1
	c.h.vioKey[key] = v
	c.h.res.Violations = append(c.h.res.Violations, v)
}

// doAssert implements verifrt.Assert.
func (c *pathCtx) doAssert(cond value, msg string, pos token.Pos, stack []string) {
	c.noEffect("verifrt.Assert")
	c.asserts++
	c.stats.AssertSite[c.posString(pos)]++
	switch v := cond.(type) {
	case bool:
		if v {
			return
		}
		c.reportFailure("assert", msg, pos, nil, stack)
		panic(pathEnd{"assert_failed"})
	case symBool:
		// is the negation feasible at all?
		c.stats.Obligation++
		switch c.solver.Check(tNot(v.t).S) {
		case Unsat:
			return // discharged
		case Unknown:
			c.incon = append(c.incon, fmt.Sprintf("solver unknown on assertion %q at %s", msg, c.posString(pos)))
			return
		}
		c.reportFailure("assert", msg, pos, tNot(v.t), stack)
		// continue under the assertion, if possible
		if c.solver.Check(v.t.S) == Unsat {
			panic(pathEnd{"assert_failed"})
		}
		c.assertPC(v.t)
	}
}

func (c *pathCtx) doAssume(cond value) {
	c.noEffect("verifrt.Assume")
	switch v := cond.(type) {
	case bool:
		if !v {
			panic(pathEnd{"assume_false"})
		}
	case symBool:
		if c.solver.Check(v.t.S) == Unsat {
			panic(pathEnd{"assume_false"})
		}
		c.assertPC(v.t)
	}
}
