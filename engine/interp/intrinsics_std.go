package interp

import (
	"fmt"
	"go/types"
	"math"
	"math/big"

	"golang.org/x/tools/go/ssa"
)

// hostFunc is a callable value implemented by the engine.
type hostFunc struct {
	name string
	f    func(i *interpreter, args []value) value
}

func nop(i *interpreter, fr *frame, fn *ssa.Function, a []value) value { return zeroResults(fn) }

func init() {
	// ---- sync: sequential model (DESIGN §3.10) ----
	for _, n := range []string{
		"(*sync.Mutex).Lock", "(*sync.Mutex).Unlock", "(*sync.RWMutex).Lock", "(*sync.RWMutex).Unlock",
		"(*sync.RWMutex).RLock", "(*sync.RWMutex).RUnlock", "(*sync.WaitGroup).Add", "(*sync.WaitGroup).Done",
		"(*sync.WaitGroup).Wait", "(*sync.Cond).Broadcast", "(*sync.Cond).Signal", "(*sync.Pool).Put",
	} {
		registerIntrinsic(n, nop)
	}
	registerIntrinsic("(*sync.Mutex).TryLock", func(i *interpreter, fr *frame, fn *ssa.Function, a []value) value { return true })
	registerIntrinsic("(*sync.WaitGroup).Go", func(i *interpreter, fr *frame, fn *ssa.Function, a []value) value {
		call(i, fr, i.lastPos, a[1], nil)
		return nil
	})
	registerIntrinsic("(*sync.Pool).Get", func(i *interpreter, fr *frame, fn *ssa.Function, a []value) value {
		p := (*a[0].(*value)).(structure)
		newFn := p[len(p)-1]
		if f, ok := newFn.(*ssa.Function); ok && f == nil {
			return iface{}
		}
		return call(i, fr, i.lastPos, newFn, nil)
	})
	registerIntrinsic("(*sync.Once).Do", func(i *interpreter, fr *frame, fn *ssa.Function, a []value) value {
		key := a[0].(*value)
		done, _ := i.ext["once"].(map[*value]bool)
		if done == nil {
			done = map[*value]bool{}
			i.ext["once"] = done
		}
		if !done[key] {
			done[key] = true
			call(i, fr, i.lastPos, a[1], nil)
		}
		return nil
	})

	// ---- sync/atomic on boxed cells ----
	for _, suffix := range []string{"Int32", "Int64", "Uint32", "Uint64", "Uintptr", "Pointer"} {
		registerIntrinsic("sync/atomic.Load"+suffix, func(i *interpreter, fr *frame, fn *ssa.Function, a []value) value {
			return *a[0].(*value)
		})
		registerIntrinsic("sync/atomic.Store"+suffix, func(i *interpreter, fr *frame, fn *ssa.Function, a []value) value {
			*a[0].(*value) = a[1]
			return nil
		})
		registerIntrinsic("sync/atomic.Swap"+suffix, func(i *interpreter, fr *frame, fn *ssa.Function, a []value) value {
			old := *a[0].(*value)
			*a[0].(*value) = a[1]
			return old
		})
		registerIntrinsic("sync/atomic.CompareAndSwap"+suffix, func(i *interpreter, fr *frame, fn *ssa.Function, a []value) value {
			p := a[0].(*value)
			t := fn.Signature.Params().At(1).Type()
			if i.ctx.concretizeBool(i.lastPos, equalsV(t, *p, a[1])) {
				*p = a[2]
				return true
			}
			return false
		})
		if suffix != "Pointer" {
			registerIntrinsic("sync/atomic.Add"+suffix, func(i *interpreter, fr *frame, fn *ssa.Function, a []value) value {
				p := a[0].(*value)
				*p = binop(i, tokenADD, nil, *p, a[1])
				return *p
			})
		}
	}
	// atomic.Pointer[T] and atomic.Value keep the boxed value in their first payload slot
	registerIntrinsic("(*sync/atomic.Pointer[T]).Load", func(i *interpreter, fr *frame, fn *ssa.Function, a []value) value {
		s := (*a[0].(*value)).(structure)
		if p, ok := s[len(s)-1].(*value); ok {
			return p
		}
		return zero(fn.Signature.Results().At(0).Type())
	})
	registerIntrinsic("(*sync/atomic.Pointer[T]).Store", func(i *interpreter, fr *frame, fn *ssa.Function, a []value) value {
		s := (*a[0].(*value)).(structure)
		s[len(s)-1] = a[1]
		return nil
	})
	registerIntrinsic("(*sync/atomic.Pointer[T]).Swap", func(i *interpreter, fr *frame, fn *ssa.Function, a []value) value {
		s := (*a[0].(*value)).(structure)
		old, ok := s[len(s)-1].(*value)
		s[len(s)-1] = a[1]
		if !ok {
			return zero(fn.Signature.Results().At(0).Type())
		}
		return old
	})
	registerIntrinsic("(*sync/atomic.Pointer[T]).CompareAndSwap", func(i *interpreter, fr *frame, fn *ssa.Function, a []value) value {
		s := (*a[0].(*value)).(structure)
		cur, _ := s[len(s)-1].(*value)
		if cur == a[1].(*value) {
			s[len(s)-1] = a[2]
			return true
		}
		return false
	})
	registerIntrinsic("(*sync/atomic.Value).Load", func(i *interpreter, fr *frame, fn *ssa.Function, a []value) value {
		s := (*a[0].(*value)).(structure)
		if v, ok := s[0].(iface); ok {
			return v
		}
		return iface{}
	})
	registerIntrinsic("(*sync/atomic.Value).Store", func(i *interpreter, fr *frame, fn *ssa.Function, a []value) value {
		s := (*a[0].(*value)).(structure)
		s[0] = a[1]
		return nil
	})

	// ---- unique: a handle is a canonical pointer per value (pointer identity = value equality) ----
	registerIntrinsic("unique.Make", func(i *interpreter, fr *frame, fn *ssa.Function, a []value) value {
		key, ok := a[0].(string)
		if !ok {
			panic(unsupported("unique.Make of a non-string value"))
		}
		if i.ctx.uniqueTab == nil {
			i.ctx.uniqueTab = map[string]*value{}
		}
		p, ok := i.ctx.uniqueTab[key]
		if !ok {
			var cell value = key
			p = &cell
			i.ctx.uniqueTab[key] = p
		}
		return structure{p}
	})
	registerIntrinsic("(unique.Handle[T]).Value", func(i *interpreter, fr *frame, fn *ssa.Function, a []value) value {
		return *(a[0].(structure)[0].(*value))
	})

	// ---- context ----
	registerIntrinsic("context.WithValue", func(i *interpreter, fr *frame, fn *ssa.Function, a []value) value {
		t := i.lookupType("context", "valueCtx")
		var cell value = structure{a[0], a[1], a[2]}
		return iface{t: types.NewPointer(t), v: &cell}
	})
	cancelFn := &hostFunc{name: "cancel", f: func(i *interpreter, args []value) value { return nil }}
	withCancel := func(i *interpreter, fr *frame, fn *ssa.Function, a []value) value {
		return tuple{a[0], cancelFn}
	}
	registerIntrinsic("context.WithCancel", withCancel)
	registerIntrinsic("context.WithTimeout", withCancel)
	registerIntrinsic("context.WithDeadline", withCancel)
	registerIntrinsic("context.WithCancelCause", withCancel)
	registerIntrinsic("context.WithoutCancel", func(i *interpreter, fr *frame, fn *ssa.Function, a []value) value { return a[0] })

	// ---- math ----
	registerIntrinsic("math.Inf", func(i *interpreter, fr *frame, fn *ssa.Function, a []value) value {
		return math.Inf(int(asInt64(a[0])))
	})
	registerIntrinsic("math.NaN", func(i *interpreter, fr *frame, fn *ssa.Function, a []value) value { return math.NaN() })
	registerIntrinsic("math.IsNaN", func(i *interpreter, fr *frame, fn *ssa.Function, a []value) value {
		if s, ok := a[0].(symFloat); ok {
			if s.num != nil {
				return false // exact rationals are finite
			}
			return mkBool(&Term{S: "(fp.isNaN " + fpTerm(s).S + ")", Sort: SBool})
		}
		return math.IsNaN(a[0].(float64))
	})
	registerIntrinsic("math.IsInf", func(i *interpreter, fr *frame, fn *ssa.Function, a []value) value {
		if s, ok := a[0].(symFloat); ok && s.num != nil {
			return false
		}
		if s, ok := a[0].(symFloat); ok {
			sign := asInt64(a[1])
			inf := "(fp.isInfinite " + s.t.S + ")"
			switch {
			case sign > 0:
				inf = "(and " + inf + " (fp.isPositive " + s.t.S + "))"
			case sign < 0:
				inf = "(and " + inf + " (fp.isNegative " + s.t.S + "))"
			}
			return mkBool(&Term{S: inf, Sort: SBool})
		}
		return math.IsInf(a[0].(float64), int(asInt64(a[1])))
	})
	fpUn := func(name string, host func(float64) float64, smt string) {
		registerIntrinsic(name, func(i *interpreter, fr *frame, fn *ssa.Function, a []value) value {
			if s, ok := a[0].(symFloat); ok {
				if smt == "" {
					panic(unsupported("%s on a symbolic float", name))
				}
				return symFloat{t: &Term{S: "(" + smt + " " + fpTerm(s).S + ")", Sort: SFP}}
			}
			return host(a[0].(float64))
		})
	}
	fpUn("math.Abs", math.Abs, "fp.abs")
	fpUn("math.Ceil", math.Ceil, "fp.roundToIntegral RTP")
	fpUn("math.Floor", math.Floor, "fp.roundToIntegral RTN")
	fpUn("math.Trunc", math.Trunc, "fp.roundToIntegral RTZ")
	fpUn("math.Round", math.Round, "fp.roundToIntegral RNA")
	fpUn("math.Sqrt", math.Sqrt, "fp.sqrt RNE")
	fpUn("math.Log", math.Log, "")
	fpUn("math.Log2", math.Log2, "")
	fpUn("math.Exp", math.Exp, "")
	registerIntrinsic("math.Pow", func(i *interpreter, fr *frame, fn *ssa.Function, a []value) value {
		if isSym(a[0]) || isSym(a[1]) {
			panic(unsupported("math.Pow on a symbolic float"))
		}
		return math.Pow(a[0].(float64), a[1].(float64))
	})
	registerIntrinsic("math.Mod", func(i *interpreter, fr *frame, fn *ssa.Function, a []value) value {
		if isSym(a[0]) || isSym(a[1]) {
			panic(unsupported("math.Mod on a symbolic float"))
		}
		return math.Mod(a[0].(float64), a[1].(float64))
	})
	fpMinMax := func(name string, isMax bool) {
		registerIntrinsic(name, func(i *interpreter, fr *frame, fn *ssa.Function, a []value) value {
			if !isSym(a[0]) && !isSym(a[1]) {
				if isMax {
					return math.Max(a[0].(float64), a[1].(float64))
				}
				return math.Min(a[0].(float64), a[1].(float64))
			}
			// exact rational view (finite values): max/min by integer comparison
			op := tokenGTR
			if !isMax {
				op = tokenLSS
			}
			if c, ok := ratBinop(op, a[0], a[1]); ok {
				if cb, isBool := c.(bool); isBool {
					if cb {
						return a[0]
					}
					return a[1]
				}
				if v, ok := i.iteValue(boolTerm(c), a[0], a[1]); ok {
					return v
				}
			}
			x, y := fpTerm(a[0]).S, fpTerm(a[1]).S
			nan := "(or (fp.isNaN " + x + ") (fp.isNaN " + y + "))"
			var pick string
			if isMax {
				// equal operands (incl. ±0): +0 wins
				pick = "(ite (fp.gt " + x + " " + y + ") " + x + " (ite (fp.gt " + y + " " + x + ") " + y + " (ite (fp.isNegative " + x + ") " + y + " " + x + ")))"
			} else {
				pick = "(ite (fp.lt " + x + " " + y + ") " + x + " (ite (fp.lt " + y + " " + x + ") " + y + " (ite (fp.isNegative " + x + ") " + x + " " + y + ")))"
			}
			return symFloat{t: &Term{S: "(ite " + nan + " (_ NaN 11 53) " + pick + ")", Sort: SFP}}
		})
	}
	fpMinMax("math.Max", true)
	fpMinMax("math.Min", false)
	registerIntrinsic("math.Float64bits", func(i *interpreter, fr *frame, fn *ssa.Function, a []value) value {
		return math.Float64bits(a[0].(float64))
	})
	registerIntrinsic("math.Float64frombits", func(i *interpreter, fr *frame, fn *ssa.Function, a []value) value {
		return math.Float64frombits(a[0].(uint64))
	})

	// ---- math/rand: arbitrary value within the documented contract (DESIGN §3.9) ----
	intn := func(k types.BasicKind) intrinsic {
		return func(i *interpreter, fr *frame, fn *ssa.Function, a []value) value {
			n := a[len(a)-1]
			nonpos := binop(i, tokenLEQ, nil, n, concreteOfKind(k, big.NewInt(0)))
			if i.ctx.concretizeBool(i.lastPos, nonpos) {
				panic(targetPanic{"invalid argument to Intn"})
			}
			r := i.newSymInt("rand", k, big.NewInt(0), nil).(symInt)
			i.ctx.assertPC(tCmp("<", r.t, intTerm(n)))
			if nt := intTerm(n); nt.hi != nil {
				r.t.hi = new(big.Int).Sub(nt.hi, big.NewInt(1))
			}
			return r
		}
	}
	registerIntrinsic("math/rand.Intn", intn(types.Int))
	registerIntrinsic("math/rand.Int63n", intn(types.Int64))
	registerIntrinsic("math/rand.Int31n", intn(types.Int32))
	registerIntrinsic("(*math/rand.Rand).Intn", intn(types.Int))
	registerIntrinsic("math/rand/v2.IntN", intn(types.Int))
	registerIntrinsic("math/rand.Float64", func(i *interpreter, fr *frame, fn *ssa.Function, a []value) value {
		t := i.ctx.newInput("randf", SFP, "float")
		i.ctx.assertPC(&Term{S: "(and (fp.leq " + fpConst(0).S + " " + t.S + ") (fp.lt " + t.S + " " + fpConst(1).S + "))", Sort: SBool})
		return symFloat{t: t}
	})

	// ---- reflect.DeepEqual and apimachinery's semantic variant ----
	registerIntrinsic("reflect.DeepEqual", func(i *interpreter, fr *frame, fn *ssa.Function, a []value) value {
		return i.deepEqualIface(a[0].(iface), a[1].(iface), false)
	})
	registerIntrinsic("(k8s.io/apimachinery/third_party/forked/golang/reflect.Equalities).DeepEqual", func(i *interpreter, fr *frame, fn *ssa.Function, a []value) value {
		return i.deepEqualIface(a[1].(iface), a[2].(iface), true)
	})
	registerIntrinsic("(k8s.io/apimachinery/third_party/forked/golang/reflect.Equalities).DeepDerivative", func(i *interpreter, fr *frame, fn *ssa.Function, a []value) value {
		panic(unsupported("DeepDerivative"))
	})
}

func (i *interpreter) deepEqualIface(x, y iface, semantic bool) value {
	if x.t == nil || y.t == nil {
		return x.t == nil && y.t == nil
	}
	if !types.Identical(x.t, y.t) {
		return false
	}
	return mkBool(i.deepEqual(x.t, x.v, y.v, semantic, map[[2]*value]bool{}, 0))
}

func (i *interpreter) deepEqual(t types.Type, x, y value, semantic bool, seen map[[2]*value]bool, depth int) *Term {
	if depth > 60 {
		panic(unsupported("DeepEqual: structure too deep"))
	}
	if semantic {
		switch typeString(t) {
		case "k8s.io/apimachinery/pkg/api/resource.Quantity":
			c := i.quantityCmp(x, y)
			return boolTerm(binop(i, tokenEQL, types.Typ[types.Int], c, 0))
		case "k8s.io/apimachinery/pkg/apis/meta/v1.Time", "k8s.io/apimachinery/pkg/apis/meta/v1.MicroTime":
			return boolTerm(i.timeEqual(x.(structure)[0], y.(structure)[0]))
		}
	}
	if typeString(t) == "time.Time" {
		// reflect.DeepEqual compares representation; the model has one representation per instant
		return boolTerm(i.timeEqual(x, y))
	}
	switch u := t.Underlying().(type) {
	case *types.Basic:
		return boolTerm(equalsV(t, x, y))
	case *types.Pointer:
		px, py := x.(*value), y.(*value)
		if px == nil || py == nil {
			return boolConst(px == py)
		}
		if px == py || seen[[2]*value{px, py}] {
			return trueT
		}
		seen[[2]*value{px, py}] = true
		return i.deepEqual(u.Elem(), *px, *py, semantic, seen, depth+1)
	case *types.Struct:
		xs, ys := x.(structure), y.(structure)
		acc := trueT
		for k := 0; k < u.NumFields(); k++ {
			acc = tAnd(acc, i.deepEqual(u.Field(k).Type(), xs[k], ys[k], semantic, seen, depth+1))
			if acc.S == "false" {
				return acc
			}
		}
		return acc
	case *types.Array:
		xs, ys := x.(array), y.(array)
		acc := trueT
		for k := range xs {
			acc = tAnd(acc, i.deepEqual(u.Elem(), xs[k], ys[k], semantic, seen, depth+1))
		}
		return acc
	case *types.Slice:
		xs, ys := x.([]value), y.([]value)
		if len(xs) != len(ys) {
			return falseT
		}
		if !semantic && (xs == nil) != (ys == nil) {
			return falseT
		}
		acc := trueT
		for k := range xs {
			acc = tAnd(acc, i.deepEqual(u.Elem(), xs[k], ys[k], semantic, seen, depth+1))
			if acc.S == "false" {
				return acc
			}
		}
		return acc
	case *types.Map:
		xm, ym := x.(*omap), y.(*omap)
		if xm.len() != ym.len() {
			return falseT
		}
		if !semantic && (xm == nil) != (ym == nil) {
			return falseT
		}
		acc := trueT
		if xm != nil {
			for k, key := range xm.keys {
				yv, ok := ym.lookup(key)
				if !ok {
					return falseT
				}
				acc = tAnd(acc, i.deepEqual(u.Elem(), xm.vals[k], yv, semantic, seen, depth+1))
			}
		}
		return acc
	case *types.Interface:
		xi, yi := x.(iface), y.(iface)
		if xi.t == nil || yi.t == nil {
			return boolConst(xi.t == nil && yi.t == nil)
		}
		if !types.Identical(xi.t, yi.t) {
			return falseT
		}
		return i.deepEqual(xi.t, xi.v, yi.v, semantic, seen, depth+1)
	case *types.Signature:
		fx, okx := x.(*ssa.Function)
		fy, oky := y.(*ssa.Function)
		return boolConst(okx && oky && fx == nil && fy == nil)
	}
	panic(unsupported("DeepEqual on %s", t))
}

func typeString(t types.Type) string {
	if n, ok := types.Unalias(t).(*types.Named); ok && n.Obj().Pkg() != nil {
		return n.Obj().Pkg().Path() + "." + n.Obj().Name()
	}
	return t.String()
}

var _ = fmt.Sprint

// ---- sync.Map: an ordered map keyed by interface values, kept in a side table ----

func (i *interpreter) syncMap(recv value) *omap {
	tab, _ := i.ext["syncmap"].(map[*value]*omap)
	if tab == nil {
		tab = map[*value]*omap{}
		i.ext["syncmap"] = tab
	}
	p := recv.(*value)
	m := tab[p]
	if m == nil {
		m = makeMap(types.NewInterfaceType(nil, nil), 0).(*omap)
		tab[p] = m
	}
	return m
}

func init() {
	registerIntrinsic("(*sync.Map).Load", func(i *interpreter, fr *frame, fn *ssa.Function, a []value) value {
		v, ok := i.syncMap(a[0]).lookup(a[1])
		if !ok {
			return tuple{iface{}, false}
		}
		return tuple{v, true}
	})
	registerIntrinsic("(*sync.Map).Store", func(i *interpreter, fr *frame, fn *ssa.Function, a []value) value {
		i.ctx.noEffect("sync.Map.Store")
		i.syncMap(a[0]).insert(a[1], a[2])
		return nil
	})
	registerIntrinsic("(*sync.Map).LoadOrStore", func(i *interpreter, fr *frame, fn *ssa.Function, a []value) value {
		m := i.syncMap(a[0])
		if v, ok := m.lookup(a[1]); ok {
			return tuple{v, true}
		}
		i.ctx.noEffect("sync.Map.LoadOrStore")
		m.insert(a[1], a[2])
		return tuple{a[2], false}
	})
	registerIntrinsic("(*sync.Map).LoadAndDelete", func(i *interpreter, fr *frame, fn *ssa.Function, a []value) value {
		m := i.syncMap(a[0])
		v, ok := m.lookup(a[1])
		if !ok {
			return tuple{iface{}, false}
		}
		i.ctx.noEffect("sync.Map.LoadAndDelete")
		m.delete(a[1])
		return tuple{v, true}
	})
	registerIntrinsic("(*sync.Map).Delete", func(i *interpreter, fr *frame, fn *ssa.Function, a []value) value {
		i.ctx.noEffect("sync.Map.Delete")
		i.syncMap(a[0]).delete(a[1])
		return nil
	})
	registerIntrinsic("(*sync.Map).Clear", func(i *interpreter, fr *frame, fn *ssa.Function, a []value) value {
		i.ctx.noEffect("sync.Map.Clear")
		i.syncMap(a[0]).clear()
		return nil
	})
	registerIntrinsic("(*sync.Map).Range", func(i *interpreter, fr *frame, fn *ssa.Function, a []value) value {
		m := i.syncMap(a[0])
		keys := append([]value(nil), m.keys...)
		for _, k := range keys {
			v, ok := m.lookup(k)
			if !ok {
				continue
			}
			if !i.ctx.concretizeBool(i.lastPos, call(i, fr, i.lastPos, a[1], []value{k, v})) {
				break
			}
		}
		return nil
	})
}

// ---- strings.Builder / bytes.Buffer writes: content kept in the buf field as boxed bytes ----

func init() {
	bufOf := func(a []value) (structure, []value) {
		s := (*a[0].(*value)).(structure)
		b, _ := s[1].([]value)
		return s, b
	}
	appendStr := func(i *interpreter, a []value, str string) {
		i.inspectStr(str)
		s, b := bufOf(a)
		for k := 0; k < len(str); k++ {
			b = append(b, str[k])
		}
		s[1] = b
	}
	registerIntrinsic("(*strings.Builder).WriteString", func(i *interpreter, fr *frame, fn *ssa.Function, a []value) value {
		str := a[1].(string)
		appendStr(i, a, str)
		return tuple{len(str), iface{}}
	})
	registerIntrinsic("(*strings.Builder).WriteByte", func(i *interpreter, fr *frame, fn *ssa.Function, a []value) value {
		s, b := bufOf(a)
		s[1] = append(b, a[1])
		return iface{}
	})
	registerIntrinsic("(*strings.Builder).WriteRune", func(i *interpreter, fr *frame, fn *ssa.Function, a []value) value {
		str := string(rune(asInt64(a[1])))
		appendStr(i, a, str)
		return tuple{len(str), iface{}}
	})
	registerIntrinsic("(*strings.Builder).Write", func(i *interpreter, fr *frame, fn *ssa.Function, a []value) value {
		s, b := bufOf(a)
		p := a[1].([]value)
		s[1] = append(b, p...)
		return tuple{len(p), iface{}}
	})
	registerIntrinsic("(*strings.Builder).String", func(i *interpreter, fr *frame, fn *ssa.Function, a []value) value {
		_, b := bufOf(a)
		out := make([]byte, len(b))
		for k := range b {
			out[k] = b[k].(uint8)
		}
		return string(out)
	})
	registerIntrinsic("(*strings.Builder).Len", func(i *interpreter, fr *frame, fn *ssa.Function, a []value) value {
		_, b := bufOf(a)
		return len(b)
	})
	registerIntrinsic("(*strings.Builder).Reset", func(i *interpreter, fr *frame, fn *ssa.Function, a []value) value {
		s, _ := bufOf(a)
		s[1] = []value(nil)
		return nil
	})
	registerIntrinsic("(*strings.Builder).Grow", nop)
}

func init() {
	registerIntrinsic("maps.clone", func(i *interpreter, fr *frame, fn *ssa.Function, a []value) value {
		// func clone(m any) any
		it := a[0].(iface)
		m, _ := it.v.(*omap)
		if m == nil {
			return it
		}
		c := makeMap(m.keyType, 0).(*omap)
		if sub := i.ctx.sub(); sub != nil {
			sub.maps[c] = true
		}
		for k := range m.keys {
			c.insert(m.keys[k], m.vals[k])
		}
		return iface{t: it.t, v: c}
	})
}
