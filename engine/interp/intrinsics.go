package interp

// Intrinsic dispatch (DESIGN Appendix B): callee name -> model.

import (
	"fmt"
	"go/types"
	"reflect"
	"regexp"
	"strings"

	"golang.org/x/tools/go/ssa"
)

type intrinsic func(i *interpreter, fr *frame, fn *ssa.Function, args []value) value

var intrinsics = map[string]intrinsic{}

// callees whose body is replaced by "return zero values" (logging, metrics, events: DESIGN §3.8)
var noopPrefixes = []string{
	"sigs.k8s.io/controller-runtime/pkg/log.",
	"(github.com/go-logr/logr.Logger).",
	"(*github.com/go-logr/logr.Logger).",
	"github.com/go-logr/logr.",
	"k8s.io/klog/v2.",
	"(k8s.io/klog/v2.Verbose).",
	"go.uber.org/zap.",
	"(*go.uber.org/zap.",
	"github.com/awslabs/operatorpkg/metrics.",
	"(*github.com/awslabs/operatorpkg/metrics.",
	"(github.com/awslabs/operatorpkg/metrics.",
	"github.com/prometheus/client_golang/prometheus.",
	"(*github.com/prometheus/client_golang/prometheus.",
	"(github.com/prometheus/client_golang/prometheus.",
	"sigs.k8s.io/karpenter/pkg/metrics.Measure",
	"sigs.k8s.io/karpenter/pkg/utils/pretty.",
	"(*sigs.k8s.io/karpenter/pkg/utils/pretty.",
	"runtime.SetFinalizer",
	"runtime.KeepAlive",
	"runtime/debug.",
}

// event constructors (pkg/**/events.<Ctor>) only format messages for the recorder: empty bodies (DESIGN §3.8)
var eventCtorRe = regexp.MustCompile(`^sigs\.k8s\.io/karpenter/pkg/(.*/)?events\.[A-Z]\w*$`)

func registerIntrinsic(name string, f intrinsic) {
	if _, dup := intrinsics[name]; dup {
		panic("duplicate intrinsic " + name)
	}
	intrinsics[name] = f
}

func intrinsicName(fn *ssa.Function) string {
	if o := fn.Origin(); o != nil {
		return o.String()
	}
	return fn.String()
}

func (i *interpreter) tryIntrinsic(fr *frame, fn *ssa.Function, args []value) (value, bool) {
	if fn.Parent() != nil {
		return nil, false
	}
	name := intrinsicName(fn)
	if f, ok := intrinsics[name]; ok {
		i.stats.Intrinsics[name]++
		return f(i, fr, fn, args), true
	}
	for _, p := range noopPrefixes {
		if strings.HasPrefix(name, p) {
			i.stats.Intrinsics["noop:"+p]++
			return zeroResults(fn), true
		}
	}
	if eventCtorRe.MatchString(name) {
		i.stats.Intrinsics["noop:event-constructor"]++
		return zeroResults(fn), true
	}
	if i.eng.Cfg.NoopFuncs != nil && i.eng.Cfg.NoopFuncs(name) {
		i.stats.Intrinsics["noop:"+name]++
		return zeroResults(fn), true
	}
	return nil, false
}

// noopObj is the payload of interface values returned by no-op callees (metric
// objects, loggers): invoking any method on them does nothing and returns zero
// values (again no-op objects for interface results).
type noopObj struct{}

func noopZero(t types.Type) value {
	if sig, ok := t.Underlying().(*types.Signature); ok {
		// a no-op callee that returns a function (e.g. `defer metrics.Measure(...)()`) returns a no-op function
		return &hostFunc{name: "noop", f: func(i *interpreter, args []value) value { return zeroResultsOf(sig) }}
	}
	if it, ok := t.Underlying().(*types.Interface); ok && it.NumMethods() > 0 && !isErrorType(t) {
		return iface{t: t, v: noopObj{}}
	}
	return zero(t)
}

func isErrorType(t types.Type) bool {
	return types.Identical(t, types.Universe.Lookup("error").Type())
}

func zeroResultsOf(sig *types.Signature) value {
	res := sig.Results()
	switch res.Len() {
	case 0:
		return nil
	case 1:
		return noopZero(res.At(0).Type())
	}
	t := make(tuple, res.Len())
	for k := range t {
		t[k] = noopZero(res.At(k).Type())
	}
	return t
}

func zeroResults(fn *ssa.Function) value { return zeroResultsOf(fn.Signature) }

// ---- host <-> interpreter value conversion for pure library functions ----

var errorRType = reflect.TypeOf((*error)(nil)).Elem()

func (i *interpreter) toHost(v value, t reflect.Type) reflect.Value {
	if isSym(v) {
		panic(unsupported("symbolic argument passed to a natively executed library function"))
	}
	switch t.Kind() {
	case reflect.String:
		i.inspectStr(v.(string))
		return reflect.ValueOf(v.(string)).Convert(t)
	case reflect.Bool:
		return reflect.ValueOf(v.(bool)).Convert(t)
	case reflect.Int, reflect.Int8, reflect.Int16, reflect.Int32, reflect.Int64:
		return reflect.ValueOf(asInt64(v)).Convert(t)
	case reflect.Uint, reflect.Uint8, reflect.Uint16, reflect.Uint32, reflect.Uint64, reflect.Uintptr:
		return reflect.ValueOf(concreteBig(v).Uint64()).Convert(t)
	case reflect.Float64, reflect.Float32:
		switch f := v.(type) {
		case float64:
			return reflect.ValueOf(f).Convert(t)
		case float32:
			return reflect.ValueOf(f).Convert(t)
		}
	case reflect.Slice:
		s := v.([]value)
		out := reflect.MakeSlice(t, len(s), len(s))
		if s == nil {
			return reflect.Zero(t)
		}
		for k := range s {
			out.Index(k).Set(i.toHost(s[k], t.Elem()))
		}
		return out
	}
	panic(unsupported("toHost: cannot convert %T to %s", v, t))
}

func (i *interpreter) fromHost(rv reflect.Value, t types.Type) value {
	switch u := t.Underlying().(type) {
	case *types.Basic:
		switch {
		case u.Info()&types.IsString != 0:
			return rv.String()
		case u.Info()&types.IsBoolean != 0:
			return rv.Bool()
		case u.Info()&types.IsUnsigned != 0:
			return concreteOfKind(u.Kind(), newBigU(rv.Uint()))
		case u.Info()&types.IsInteger != 0:
			return concreteOfKind(u.Kind(), newBigI(rv.Int()))
		case u.Kind() == types.Float64:
			return rv.Float()
		case u.Kind() == types.Float32:
			return float32(rv.Float())
		}
	case *types.Slice:
		if rv.IsNil() {
			return []value(nil)
		}
		out := make([]value, rv.Len())
		for k := range out {
			out[k] = i.fromHost(rv.Index(k), u.Elem())
		}
		return out
	case *types.Interface:
		if rv.Type() == errorRType || rv.Type().Implements(errorRType) {
			if rv.IsNil() {
				return iface{}
			}
			return i.newError(rv.Interface().(error).Error())
		}
	}
	panic(unsupported("fromHost: cannot convert %s to %s", rv.Type(), t))
}

// native wraps a pure host function over basic types.
func native(f any) intrinsic {
	rf := reflect.ValueOf(f)
	rt := rf.Type()
	return func(i *interpreter, fr *frame, fn *ssa.Function, args []value) value {
		in := make([]reflect.Value, len(args))
		for k, a := range args {
			var pt reflect.Type
			if rt.IsVariadic() && k >= rt.NumIn()-1 {
				pt = rt.In(rt.NumIn() - 1)
				if k == rt.NumIn()-1 {
					// SSA passes the variadic slice as one argument
					in[k] = i.toHost(a, pt)
					continue
				}
			} else {
				pt = rt.In(k)
			}
			in[k] = i.toHost(a, pt)
		}
		var out []reflect.Value
		if rt.IsVariadic() {
			out = rf.CallSlice(in)
		} else {
			out = rf.Call(in)
		}
		res := fn.Signature.Results()
		switch len(out) {
		case 0:
			return nil
		case 1:
			return i.fromHost(out[0], res.At(0).Type())
		}
		t := make(tuple, len(out))
		for k := range out {
			t[k] = i.fromHost(out[k], res.At(k).Type())
		}
		return t
	}
}

// ---- error construction ----

func (i *interpreter) lookupType(pkgPath, name string) types.Type {
	pkg := i.prog.ImportedPackage(pkgPath)
	if pkg == nil {
		panic(unsupported("package %s is not in the loaded program", pkgPath))
	}
	m := pkg.Members[name]
	if m == nil {
		panic(unsupported("type %s.%s not found", pkgPath, name))
	}
	return m.Type()
}

// newError builds a real *errors.errorString so that interpreted code can call Error() on it.
func (i *interpreter) newError(msg string) iface {
	t := i.lookupType("errors", "errorString")
	var cell value = structure{msg}
	return iface{t: types.NewPointer(t), v: &cell}
}

func (i *interpreter) callMethod(recv iface, name string, args ...value) (res value, ok bool) {
	if recv.t == nil {
		return nil, false
	}
	ms := i.prog.MethodSets.MethodSet(recv.t)
	for k := 0; k < ms.Len(); k++ {
		sel := ms.At(k)
		if sel.Obj().Name() == name {
			fn := i.prog.MethodValue(sel)
			if fn == nil {
				return nil, false
			}
			return call(i, i.cur, i.lastPos, fn, append([]value{recv.v}, args...)), true
		}
	}
	return nil, false
}

func (i *interpreter) hasMethod(t types.Type, name string) *types.Func {
	if t == nil {
		return nil
	}
	ms := i.prog.MethodSets.MethodSet(t)
	for k := 0; k < ms.Len(); k++ {
		if ms.At(k).Obj().Name() == name {
			return ms.At(k).Obj().(*types.Func)
		}
	}
	return nil
}

func newBigI(v int64) *bigInt  { return new(bigInt).SetInt64(v) }
func newBigU(v uint64) *bigInt { return new(bigInt).SetUint64(v) }

func (i *interpreter) errString(e iface) string {
	if e.t == nil {
		return "<nil>"
	}
	var out string
	func() {
		defer func() {
			if r := recover(); r != nil {
				if _, isEnd := r.(pathEnd); isEnd {
					panic(r)
				}
				out = "<" + e.t.String() + ">"
			}
		}()
		if r, ok := i.callMethod(e, "Error"); ok {
			if s, ok := r.(string); ok {
				out = s
				return
			}
		}
		out = "<" + e.t.String() + ">"
	}()
	return out
}

var _ = fmt.Sprint

// Modelled strings (label-value atoms, formatted symbolic integers, formatted
// symbolic instants and durations) are concrete placeholders whose characters
// mean nothing. Code that looks inside one is still executed, but the path is
// tainted: it can produce a (replay-confirmed) violation, never a "holds".
func isModelStr(s string) bool { return strings.Contains(s, "§") }

func (i *interpreter) inspectStr(s string) {
	if isModelStr(s) && i.ctx.taint == "" && i.initDepth == 0 {
		i.ctx.taint = "characters of a modelled string (" + s + ") inspected" + i.where()
	}
}
