package interp

// Pure-callee summaries (DESIGN A.2b "pure sub-search"): a call to a function
// declared pure by the harness (`// verif:pure <regexp>`) is explored
// exhaustively in place — the callee is re-run from the live state once per
// local decision prefix — and execution continues on ONE path with the
// ite-merged result. Purity is enforced at run time: a write to a cell or map
// the sub-run did not allocate itself, the creation of a symbolic input, or any
// verifrt effect aborts the summary before the effect happens and the call is
// executed again with ordinary forking.

import (
	"go/token"

	"golang.org/x/tools/go/ssa"
)

type subSearch struct {
	prefix   []int
	taken    []int
	conds    []*Term
	children [][]int
	cells    map[*value]bool
	maps     map[*omap]bool
}

type pureAbort struct{ why string }

type pureResult struct {
	cond *Term
	val  value
}

func (c *pathCtx) sub() *subSearch {
	if n := len(c.subs); n > 0 {
		return c.subs[n-1]
	}
	return nil
}

// noEffect aborts a running summary when an effectful engine primitive is reached.
func (c *pathCtx) noEffect(what string) {
	if len(c.subs) > 0 {
		panic(pureAbort{what})
	}
}

func (s *subSearch) registerCell(p *value, depth int) {
	s.cells[p] = true
	if depth > 6 {
		return
	}
	switch x := (*p).(type) {
	case structure:
		for k := range x {
			s.registerCell(&x[k], depth+1)
		}
	case array:
		for k := range x {
			s.registerCell(&x[k], depth+1)
		}
	}
}

func (i *interpreter) isPure(fn *ssa.Function) bool {
	if i.eng.Cfg.PureFuncs == nil || fn.Signature.Results().Len() == 0 {
		return false
	}
	if i.ctx.pureSkip[fn] >= 2 {
		return false
	}
	return i.eng.pureMatch(fn)
}

func (e *Engine) pureMatch(fn *ssa.Function) bool {
	if v, ok := e.pureCache.Load(fn); ok {
		return v.(bool)
	}
	m := e.Cfg.PureFuncs(intrinsicName(fn))
	e.pureCache.Store(fn, m)
	return m
}

// callPure runs fn as a summary. ok=false: the summary was abandoned with the
// state untouched and the caller must execute the call normally.
func (i *interpreter) callPure(caller *frame, callpos token.Pos, fn *ssa.Function, args []value, env []value) (res value, ok bool) {
	c := i.ctx
	sub := &subSearch{}
	c.subs = append(c.subs, sub)
	savedPos, savedCur, savedDepth, savedStack := i.lastPos, i.cur, i.depth, i.lastStack
	pop := func() {
		c.subs = c.subs[:len(c.subs)-1]
		i.lastPos, i.cur, i.depth, i.lastStack = savedPos, savedCur, savedDepth, savedStack
	}
	var results []pureResult
	work := [][]int{{}}
	runs := 0
	for len(work) > 0 {
		prefix := work[len(work)-1]
		work = work[:len(work)-1]
		sub.prefix, sub.taken, sub.conds, sub.children = prefix, nil, nil, nil
		sub.cells, sub.maps = map[*value]bool{}, map[*omap]bool{}
		runs++
		if runs > 512 {
			pop()
			c.pureSkip[fn] += 2
			return nil, false
		}
		c.solver.Push()
		pcLen := len(c.pc)
		var val value
		aborted := ""
		func() {
			defer func() {
				if r := recover(); r != nil {
					switch p := r.(type) {
					case pureAbort:
						aborted = p.why
					case pathEnd:
						if p.outcome == "fuse" {
							panic(r)
						}
						aborted = "path end: " + p.outcome
					case unsupportedErr:
						panic(r)
					default:
						if isTargetPanic(r) {
							aborted = "panic inside callee"
							return
						}
						panic(r)
					}
				}
			}()
			val = callSSAInner(i, caller, callpos, fn, args, env)
		}()
		c.solver.Pop()
		c.pc = c.pc[:pcLen]
		if aborted != "" {
			pop()
			c.pureSkip[fn]++
			i.stats.PureAborts++
			return nil, false
		}
		results = append(results, pureResult{tAnd(sub.conds...), val})
		work = append(work, sub.children...)
	}
	pop()
	merged := results[len(results)-1].val
	for k := len(results) - 2; k >= 0; k-- {
		m, ok := i.iteValue(results[k].cond, results[k].val, merged)
		if !ok {
			c.pureSkip[fn]++
			i.stats.PureAborts++
			return nil, false
		}
		merged = m
	}
	i.stats.PureMerges++
	if len(results) > 1 {
		i.stats.PureMergedPaths += len(results)
	}
	return merged, true
}
