package interp

// Write-set tracking for frame-condition harnesses (C18): verifrt.Freeze(x)
// marks every cell reachable from x; a later Store/MapUpdate into a marked cell
// is reported as a violation.

func (i *interpreter) freeze(v value) {
	if i.frozen == nil {
		i.frozen = map[*value]bool{}
		i.frozenMaps = map[*omap]bool{}
	}
	i.freezeWalk(v, 0)
}

func (i *interpreter) freezeWalk(v value, depth int) {
	if depth > 200 {
		panic(unsupported("Freeze: object graph too deep"))
	}
	switch x := v.(type) {
	case *value:
		if x == nil || i.frozen[x] {
			return
		}
		i.frozen[x] = true
		i.freezeWalk(*x, depth+1)
	case structure:
		for k := range x {
			i.frozen[&x[k]] = true
			i.freezeWalk(x[k], depth+1)
		}
	case array:
		for k := range x {
			i.frozen[&x[k]] = true
			i.freezeWalk(x[k], depth+1)
		}
	case []value:
		x = x[:cap(x)]
		for k := range x {
			if i.frozen[&x[k]] {
				return
			}
			i.frozen[&x[k]] = true
			i.freezeWalk(x[k], depth+1)
		}
	case *omap:
		if x == nil || i.frozenMaps[x] {
			return
		}
		i.frozenMaps[x] = true
		for k := range x.keys {
			i.freezeWalk(x.keys[k], depth+1)
			i.freezeWalk(x.vals[k], depth+1)
		}
	case iface:
		i.freezeWalk(x.v, depth+1)
	case tuple:
		for k := range x {
			i.freezeWalk(x[k], depth+1)
		}
	}
}

// thaw un-freezes the object x points to (its own fields, not what they refer to): used for the bookkeeping of
// environment models (the API-client model's call log) that sit inside a frozen object graph.
func (i *interpreter) thaw(v value) {
	if it, ok := v.(iface); ok {
		v = it.v
	}
	p, ok := v.(*value)
	if !ok || p == nil {
		return
	}
	delete(i.frozen, p)
	if st, ok := (*p).(structure); ok {
		for k := range st {
			delete(i.frozen, &st[k])
		}
	}
}
