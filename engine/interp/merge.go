package interp

// Diamond merging (DESIGN A.2b): an If on a symbolic condition whose arms are
// speculation-safe and meet in a join block is evaluated as ite terms instead
// of forking.

import (
	"fmt"
	"go/token"
	"math/big"
	"strconv"
	"strings"

	"golang.org/x/tools/go/ssa"
)

type mergeAbort struct{}

func speculationSafe(instr ssa.Instruction) bool {
	switch v := instr.(type) {
	case *ssa.BinOp:
		// division can panic
		return v.Op != token.QUO && v.Op != token.REM
	case *ssa.UnOp:
		return v.Op != token.ARROW // loads are attempted; a nil load aborts the merge
	case *ssa.Extract, *ssa.Field, *ssa.FieldAddr, *ssa.ChangeType, *ssa.ChangeInterface, *ssa.MakeInterface, *ssa.Convert, *ssa.DebugRef:
		return true
	}
	return false
}

// armOf returns (instructions to run, true) if succ is a mergeable arm leading to join.
func armOf(from, succ, join *ssa.BasicBlock) ([]ssa.Instruction, bool) {
	if succ == join {
		return nil, true
	}
	if len(succ.Preds) != 1 || len(succ.Succs) != 1 || succ.Succs[0] != join {
		return nil, false
	}
	n := len(succ.Instrs)
	if _, ok := succ.Instrs[n-1].(*ssa.Jump); !ok {
		return nil, false
	}
	if n > 12 {
		return nil, false
	}
	for _, in := range succ.Instrs[:n-1] {
		if _, isPhi := in.(*ssa.Phi); isPhi {
			return nil, false
		}
		if !speculationSafe(in) {
			return nil, false
		}
	}
	return succ.Instrs[:n-1], true
}

func tryDiamondMerge(fr *frame, instr *ssa.If, cond *Term) (merged bool) {
	b := fr.block
	s0, s1 := b.Succs[0], b.Succs[1]
	var join *ssa.BasicBlock
	switch {
	case len(s0.Succs) == 1 && s0.Succs[0] == s1:
		join = s1
	case len(s1.Succs) == 1 && s1.Succs[0] == s0:
		join = s0
	case len(s0.Succs) == 1 && len(s1.Succs) == 1 && s0.Succs[0] == s1.Succs[0]:
		join = s0.Succs[0]
	default:
		return false
	}
	arm0, ok0 := armOf(b, s0, join)
	arm1, ok1 := armOf(b, s1, join)
	if !ok0 || !ok1 || join == b {
		return false
	}
	// the join must start with phis only fed by these two edges (other preds allowed)
	pred0, pred1 := s0, s1
	if s0 == join {
		pred0 = b
	}
	if s1 == join {
		pred1 = b
	}
	if pred0 == pred1 {
		return false
	}
	idx0, idx1 := -1, -1
	for k, p := range join.Preds {
		if p == pred0 && idx0 < 0 {
			idx0 = k
		} else if p == pred1 && idx1 < 0 {
			idx1 = k
		}
	}
	if idx0 < 0 || idx1 < 0 {
		return false
	}
	i := fr.i
	savedInstrs := i.ctx.instrs
	defer func() {
		if r := recover(); r != nil {
			// any trouble while speculating: fall back to forking
			i.ctx.instrs = savedInstrs
			if _, isEnd := r.(pathEnd); isEnd {
				panic(r)
			}
			merged = false
		}
	}()
	savedPos := i.lastPos
	for _, in := range arm0 {
		visitInstr(fr, in)
	}
	for _, in := range arm1 {
		visitInstr(fr, in)
	}
	i.lastPos = savedPos
	var vals []value
	var phis []*ssa.Phi
	for _, in := range join.Instrs {
		phi, ok := in.(*ssa.Phi)
		if !ok {
			break
		}
		v, ok := i.iteValue(cond, fr.get(phi.Edges[idx0]), fr.get(phi.Edges[idx1]))
		if !ok {
			return false
		}
		phis = append(phis, phi)
		vals = append(vals, v)
	}
	for k, phi := range phis {
		fr.env[phi] = vals[k]
	}
	fr.prevBlock, fr.block = pred0, join
	fr.skipPhis = true
	i.stats.Merges++
	return true
}

// ---- misc helpers ----

func (i *interpreter) usePoison(v value) value {
	if i.initDepth > 0 {
		return v
	}
	panic(unsupported("use of a value whose package initializer could not be executed: %s", v.(poison).why))
}

func (i *interpreter) checkFrozen(addr *value, pos token.Pos) {
	if i.frozen[addr] {
		i.ctx.reportFailure("frame", "write into a frozen object", pos, nil, i.cur.stack())
	}
}

func decodeSMTValue(raw string, sort Sort) any {
	raw = strings.TrimSpace(raw)
	switch sort {
	case SBool:
		return raw == "true"
	case SInt:
		neg := false
		if strings.HasPrefix(raw, "(-") {
			neg = true
			raw = strings.TrimSpace(strings.TrimSuffix(strings.TrimPrefix(raw, "(-"), ")"))
		}
		b, ok := new(big.Int).SetString(raw, 10)
		if !ok {
			return raw
		}
		if neg {
			b.Neg(b)
		}
		if b.IsInt64() {
			return b.Int64()
		}
		return b.String()
	case SFP:
		return decodeFP(raw)
	}
	return raw
}

func decodeFP(raw string) any {
	// (fp #b0 #b10000000000 #x0000000000000) | (_ +zero 11 53) | (_ NaN 11 53) | (_ +oo 11 53)
	switch {
	case strings.Contains(raw, "+zero"):
		return 0.0
	case strings.Contains(raw, "-zero"):
		return "-0"
	case strings.Contains(raw, "NaN"):
		return "NaN"
	case strings.Contains(raw, "+oo"):
		return "+Inf"
	case strings.Contains(raw, "-oo"):
		return "-Inf"
	}
	f := strings.Fields(strings.Trim(raw, "()"))
	if len(f) == 4 && f[0] == "fp" {
		bits := ""
		for _, p := range f[1:] {
			switch {
			case strings.HasPrefix(p, "#b"):
				bits += p[2:]
			case strings.HasPrefix(p, "#x"):
				for _, c := range p[2:] {
					n, _ := strconv.ParseUint(string(c), 16, 8)
					bits += fmt.Sprintf("%04b", n)
				}
			}
		}
		if len(bits) == 64 {
			u, err := strconv.ParseUint(bits, 2, 64)
			if err == nil {
				return map[string]any{"float64bits": fmt.Sprintf("%d", u)}
			}
		}
	}
	return raw
}
