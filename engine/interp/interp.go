// Copyright 2013 The Go Authors. All rights reserved.
// Use of this source code is governed by a BSD-style
// license that can be found in the LICENSE file (LICENSE.xtools).
//
// Forked from golang.org/x/tools/go/ssa/interp (v0.50.0) and extended with a
// symbolic layer: see DESIGN.md §2 and Appendix A.3b for the edit list.

package interp

import (
	"fmt"
	"go/token"
	"go/types"
	"os"
	"reflect"
	"runtime"
	"slices"
	"strings"

	"golang.org/x/tools/go/ssa"
)

type continuation int

const (
	kNext continuation = iota
	kReturn
	kJump
)

// Mode is a bitmask of options affecting the interpreter.
type Mode uint

const (
	DisableRecover Mode = 1 << iota // Disable recover() in target programs; show interpreter crash instead.
	EnableTracing                   // Print a trace of all instructions as they are interpreted.
)

type methodSet map[string]*ssa.Function

// Per-path interpreter state.
type interpreter struct {
	prog               *ssa.Program           // the SSA program
	globals            map[*ssa.Global]*value // addresses of global variables (created lazily)
	inited             map[*ssa.Package]bool  // packages whose init has run (or is running)
	initDepth          int                    // >0 while a package initializer runs (tolerant mode)
	mode               Mode                   // interpreter options
	runtimeErrorString types.Type             // the runtime.errorString type
	sizes              types.Sizes            // the effective type-sizing function
	eng                *Engine
	ctx                *pathCtx
	stats              *Stats
	lastPos            token.Pos
	callerPos          token.Pos
	lastStack          []string
	cur                *frame
	depth              int
	clockNow           value // harness clock (see intrinsics_time.go)
	frozen             map[*value]bool
	frozenMaps         map[*omap]bool
	ext                map[string]any // per-path scratch for intrinsics
}

func newInterpreter(e *Engine, c *pathCtx) *interpreter {
	i := &interpreter{
		prog:    e.Prog,
		globals: make(map[*ssa.Global]*value),
		inited:  make(map[*ssa.Package]bool),
		sizes:   &types.StdSizes{WordSize: 8, MaxAlign: 8},
		eng:     e,
		ctx:     c,
		stats:   c.stats,
		ext:     map[string]any{},
	}
	if e.Cfg.Trace {
		i.mode |= EnableTracing
	}
	if runtimePkg := i.prog.ImportedPackage("runtime"); runtimePkg != nil {
		i.runtimeErrorString = runtimePkg.Type("errorString").Object().Type()
	}
	return i
}

// global returns the cell of g, running g's package initializer first if needed.
func (i *interpreter) global(g *ssa.Global) *value {
	if r, ok := i.globals[g]; ok {
		return r
	}
	if g.Pkg != nil && !i.inited[g.Pkg] {
		i.initPackage(g.Pkg)
		if r, ok := i.globals[g]; ok {
			return r
		}
	}
	cell := zero(mustDeref(g.Type()))
	i.globals[g] = &cell
	return &cell
}

// initPackage runs the synthetic package initializer of pkg only (imports are
// initialized lazily when one of their globals is first touched), in tolerant
// mode: a call the engine cannot execute yields poison instead of aborting.
func (i *interpreter) initPackage(pkg *ssa.Package) {
	i.inited[pkg] = true
	pkg.Build()
	init := pkg.Func("init")
	if init == nil || init.Blocks == nil {
		return
	}
	i.initDepth++
	savedCur := i.cur
	defer func() {
		i.initDepth--
		i.cur = savedCur
		if r := recover(); r != nil {
			if pe, ok := r.(pathEnd); ok {
				panic(pe)
			}
			// initializer aborted: remaining globals stay zero; reading them is not distinguishable, so
			// remember the package as partially initialized
			if i.eng.Cfg.Verbose {
				fmt.Fprintf(os.Stderr, "  init of %s aborted: %v\n", pkg.Pkg.Path(), r)
			}
		}
	}()
	callSSA(i, nil, token.NoPos, init, nil, nil)
}

// tolerantCall runs a call made directly by a package initializer; a call the
// engine cannot execute yields poison and initialization continues.
func (i *interpreter) tolerantCall(fr *frame, instr *ssa.Call, fn value, args []value) (res value) {
	savedCur, savedDepth := i.cur, i.depth
	defer func() {
		if r := recover(); r != nil {
			if pe, ok := r.(pathEnd); ok {
				panic(pe)
			}
			i.cur, i.depth = savedCur, savedDepth
			i.lastStack = nil
			res = poison{fmt.Sprintf("%v", r)}
			if t, ok := instr.Type().(*types.Tuple); ok && t.Len() > 1 {
				tup := make(tuple, t.Len())
				for k := range tup {
					tup[k] = res
				}
				res = tup
			}
		}
	}()
	return call(i, fr, instr.Pos(), fn, args)
}

// poison is the result of a call that could not be executed during package
// initialization. Using it later is unsupported (inconclusive).
type poison struct{ why string }

type deferred struct {
	fn    value
	args  []value
	instr *ssa.Defer
	tail  *deferred
}

type frame struct {
	skipPhis         bool
	i                *interpreter
	caller           *frame
	fn               *ssa.Function
	block, prevBlock *ssa.BasicBlock
	env              map[ssa.Value]value // dynamic values of SSA variables
	locals           []value
	defers           *deferred
	result           value
	panicking        bool
	panic            any
	phitemps         []value // temporaries for parallel phi assignment
}

func (fr *frame) get(key ssa.Value) value {
	switch key := key.(type) {
	case nil:
		// Hack; simplifies handling of optional attributes
		// such as ssa.Slice.{Low,High}.
		return nil
	case *ssa.Function, *ssa.Builtin:
		return key
	case *ssa.Const:
		return constValue(key)
	case *ssa.Global:
		return fr.i.global(key)
	}
	if r, ok := fr.env[key]; ok {
		return r
	}
	panic(fmt.Sprintf("get: no value for %T: %v", key, key.Name()))
}

// runDefer runs a deferred call d.
// It always returns normally, but may set or clear fr.panic.
func (fr *frame) runDefer(d *deferred) {
	if fr.i.mode&EnableTracing != 0 {
		fmt.Fprintf(os.Stderr, "%s: invoking deferred function call\n",
			fr.i.prog.Fset.Position(d.instr.Pos()))
	}
	var ok bool
	defer func() {
		if !ok {
			// Deferred call created a new state of panic.
			fr.panicking = true
			fr.panic = recover()
		}
	}()
	call(fr.i, fr, d.instr.Pos(), d.fn, d.args)
	ok = true
}

// runDefers executes fr's deferred function calls in LIFO order.
//
// On entry, fr.panicking indicates a state of panic; if
// true, fr.panic contains the panic value.
//
// On completion, if a deferred call started a panic, or if no
// deferred call recovered from a previous state of panic, then
// runDefers itself panics after the last deferred call has run.
//
// If there was no initial state of panic, or it was recovered from,
// runDefers returns normally.
func (fr *frame) runDefers() {
	for d := fr.defers; d != nil; d = d.tail {
		fr.runDefer(d)
	}
	fr.defers = nil
	if fr.panicking {
		panic(fr.panic) // new panic, or still panicking
	}
}

// lookupMethod returns the method set for type typ, which may be one
// of the interpreter's fake types.
func lookupMethod(i *interpreter, typ types.Type, meth *types.Func) *ssa.Function {
	return i.prog.LookupMethod(typ, meth.Pkg(), meth.Name())
}

// visitInstr interprets a single ssa.Instruction within the activation
// record frame.  It returns a continuation value indicating where to
// read the next instruction from.
func visitInstr(fr *frame, instr ssa.Instruction) continuation {
	i := fr.i
	if p := instr.Pos(); p != token.NoPos {
		i.lastPos = p
	}
	i.ctx.instrs++
	if i.ctx.instrs > i.eng.Cfg.InstrFuse {
		panic(pathEnd{"fuse"})
	}
	switch instr := instr.(type) {
	case *ssa.DebugRef:
		// no-op

	case *ssa.UnOp:
		fr.env[instr] = unop(fr, instr, fr.get(instr.X))

	case *ssa.BinOp:
		fr.env[instr] = binop(i, instr.Op, instr.X.Type(), fr.get(instr.X), fr.get(instr.Y))

	case *ssa.Call:
		fn, args := prepareCall(fr, &instr.Call)
		if i.initDepth > 0 && (fr.fn.Synthetic == "package initializer" || strings.HasPrefix(fr.fn.Name(), "init#")) {
			fr.env[instr] = i.tolerantCall(fr, instr, fn, args)
		} else {
			fr.env[instr] = call(fr.i, fr, instr.Pos(), fn, args)
		}

	case *ssa.ChangeInterface:
		fr.env[instr] = fr.get(instr.X)

	case *ssa.ChangeType:
		fr.env[instr] = fr.get(instr.X) // (can't fail)

	case *ssa.Convert:
		fr.env[instr] = conv(i, instr.Type(), instr.X.Type(), fr.get(instr.X))

	case *ssa.SliceToArrayPointer:
		fr.env[instr] = sliceToArrayPointer(instr.Type(), instr.X.Type(), fr.get(instr.X))

	case *ssa.MakeInterface:
		fr.env[instr] = iface{t: instr.X.Type(), v: fr.get(instr.X)}

	case *ssa.Extract:
		fr.env[instr] = fr.get(instr.Tuple).(tuple)[instr.Index]

	case *ssa.Slice:
		fr.env[instr] = slice(i, instr.Pos(), fr.get(instr.X), fr.get(instr.Low), fr.get(instr.High), fr.get(instr.Max))

	case *ssa.Return:
		switch len(instr.Results) {
		case 0:
		case 1:
			fr.result = fr.get(instr.Results[0])
		default:
			var res []value
			for _, r := range instr.Results {
				res = append(res, fr.get(r))
			}
			fr.result = tuple(res)
		}
		fr.block = nil
		return kReturn

	case *ssa.RunDefers:
		fr.runDefers()

	case *ssa.Panic:
		panic(targetPanic{fr.get(instr.X)})

	case *ssa.Send:
		i.chanSend(fr.get(instr.Chan), fr.get(instr.X))

	case *ssa.Store:
		addr := fr.get(instr.Addr).(*value)
		if addr == nil {
			panic(targetPanic{"runtime error: invalid memory address or nil pointer dereference (store)"})
		}
		if i.frozen != nil {
			i.checkFrozen(addr, instr.Pos())
		}
		if sub := i.ctx.sub(); sub != nil && !sub.cells[addr] {
			panic(pureAbort{"store to a cell the callee did not allocate"})
		}
		store(mustDeref(instr.Addr.Type()), addr, fr.get(instr.Val))

	case *ssa.If:
		succ := 1
		switch c := fr.get(instr.Cond).(type) {
		case bool:
			if c {
				succ = 0
			}
		case symBool:
			if tryDiamondMerge(fr, instr, c.t) {
				return kJump
			}
			if i.ctx.branch(i.lastPos, c.t) {
				succ = 0
			}
		default:
			panic(fmt.Sprintf("If on %T", c))
		}
		fr.prevBlock, fr.block = fr.block, fr.block.Succs[succ]
		return kJump

	case *ssa.Jump:
		fr.prevBlock, fr.block = fr.block, fr.block.Succs[0]
		return kJump

	case *ssa.Defer:
		fn, args := prepareCall(fr, &instr.Call)
		defers := &fr.defers
		if into := fr.get(instr.DeferStack); into != nil {
			defers = into.(**deferred)
		}
		*defers = &deferred{
			fn:    fn,
			args:  args,
			instr: instr,
			tail:  *defers,
		}

	case *ssa.Go:
		fn, args := prepareCall(fr, &instr.Call)
		i.spawn(fr, instr.Pos(), fn, args)

	case *ssa.MakeChan:
		fr.env[instr] = i.makeChan(asInt64(fr.get(instr.Size)))

	case *ssa.Alloc:
		var addr *value
		if instr.Heap {
			// new
			addr = new(value)
			fr.env[instr] = addr
		} else {
			// local
			addr = fr.env[instr].(*value)
		}
		*addr = zero(mustDeref(instr.Type()))
		if sub := i.ctx.sub(); sub != nil {
			sub.registerCell(addr, 0)
		}

	case *ssa.MakeSlice:
		ln, ok1 := i.ctx.concretizeInt(instr.Pos(), fr.get(instr.Len), 0, 16)
		cp, ok2 := i.ctx.concretizeInt(instr.Pos(), fr.get(instr.Cap), 0, 1<<40)
		if !ok1 || !ok2 || cp < ln {
			if _, sym := fr.get(instr.Len).(symInt); sym {
				panic(unsupported("make([]T, n) with symbolic n outside 0..16"))
			}
			if ln < 0 || cp < ln {
				panic(targetPanic{"runtime error: makeslice: len out of range"})
			}
		}
		slice := make([]value, cp)
		tElt := instr.Type().Underlying().(*types.Slice).Elem()
		for k := range slice {
			slice[k] = zero(tElt)
		}
		if sub := i.ctx.sub(); sub != nil {
			for k := range slice {
				sub.registerCell(&slice[k], 0)
			}
		}
		fr.env[instr] = slice[:ln]

	case *ssa.MakeMap:
		var reserve int64
		if instr.Reserve != nil {
			if r, ok := fr.get(instr.Reserve).(symInt); ok {
				_ = r
			} else {
				reserve = asInt64(fr.get(instr.Reserve))
			}
		}
		nm := makeMap(instr.Type().Underlying().(*types.Map).Key(), reserve)
		if sub := i.ctx.sub(); sub != nil {
			sub.maps[nm.(*omap)] = true
		}
		fr.env[instr] = nm

	case *ssa.Range:
		fr.env[instr] = rangeIter(i, fr.get(instr.X))

	case *ssa.Next:
		fr.env[instr] = fr.get(instr.Iter).(iter).next()

	case *ssa.FieldAddr:
		p := fr.get(instr.X).(*value)
		if p == nil {
			panic(targetPanic{"runtime error: invalid memory address or nil pointer dereference (field " + fieldName(instr) + ")"})
		}
		fr.env[instr] = &(*p).(structure)[instr.Field]

	case *ssa.Field:
		fr.env[instr] = fr.get(instr.X).(structure)[instr.Field]

	case *ssa.IndexAddr:
		x := fr.get(instr.X)
		idx := fr.get(instr.Index)
		switch x := x.(type) {
		case []value:
			fr.env[instr] = &x[i.index(instr.Pos(), idx, len(x))]
		case *value: // *array
			if x == nil {
				panic(targetPanic{"runtime error: invalid memory address or nil pointer dereference (array)"})
			}
			a := (*x).(array)
			fr.env[instr] = &a[i.index(instr.Pos(), idx, len(a))]
		default:
			panic(fmt.Sprintf("unexpected x type in IndexAddr: %T", x))
		}

	case *ssa.Index:
		x := fr.get(instr.X)
		idx := fr.get(instr.Index)

		switch x := x.(type) {
		case array:
			fr.env[instr] = x[i.index(instr.Pos(), idx, len(x))]
		case string:
			i.inspectStr(x)
			fr.env[instr] = x[i.index(instr.Pos(), idx, len(x))]
		default:
			panic(fmt.Sprintf("unexpected x type in Index: %T", x))
		}

	case *ssa.Lookup:
		fr.env[instr] = lookup(instr, fr.get(instr.X), fr.get(instr.Index))

	case *ssa.MapUpdate:
		m := fr.get(instr.Map)
		key := fr.get(instr.Key)
		v := fr.get(instr.Value)
		switch m := m.(type) {
		case *omap:
			if sub := i.ctx.sub(); sub != nil && !sub.maps[m] {
				panic(pureAbort{"update of a map the callee did not create"})
			}
			if i.frozenMaps != nil && i.frozenMaps[m] {
				i.ctx.reportFailure("frame", "write into a frozen map", instr.Pos(), nil, fr.stack())
			}
			m.insert(key, v)
		default:
			panic(fmt.Sprintf("illegal map type: %T", m))
		}

	case *ssa.TypeAssert:
		fr.env[instr] = typeAssert(instr, fr.get(instr.X).(iface))

	case *ssa.MakeClosure:
		var bindings []value
		for _, binding := range instr.Bindings {
			bindings = append(bindings, fr.get(binding))
		}
		fr.env[instr] = &closure{instr.Fn.(*ssa.Function), bindings}

	case *ssa.Phi:
		panic("unreachable: phi")

	case *ssa.Select:
		fr.env[instr] = i.doSelect(fr, instr)

	default:
		panic(fmt.Sprintf("unexpected instruction: %T", instr))
	}

	// if val, ok := instr.(ssa.Value); ok {
	// 	fmt.Println(toString(fr.env[val])) // debugging
	// }

	return kNext
}

// prepareCall determines the function value and argument values for a
// function call in a Call, Go or Defer instruction, performing
// interface method lookup if needed.
func prepareCall(fr *frame, call *ssa.CallCommon) (fn value, args []value) {
	v := fr.get(call.Value)
	if call.Method == nil {
		// Function call.
		fn = v
	} else {
		// Interface method invocation.
		recv := v.(iface)
		if recv.t == nil {
			panic(targetPanic{"runtime error: invalid memory address or nil pointer dereference (method " + call.Method.Name() + " invoked on nil interface)"})
		}
		if _, isNoop := recv.v.(noopObj); isNoop {
			sig := call.Method.Type().(*types.Signature)
			return &hostFunc{name: "noop." + call.Method.Name(), f: func(i *interpreter, args []value) value { return zeroResultsOf(sig) }}, nil
		}
		if f := lookupMethod(fr.i, recv.t, call.Method); f == nil {
			// Unreachable in well-typed programs.
			panic(fmt.Sprintf("method set for dynamic type %v does not contain %s", recv.t, call.Method))
		} else {
			fn = f
		}
		args = append(args, recv.v)
	}
	for _, arg := range call.Args {
		args = append(args, fr.get(arg))
	}
	return
}

// call interprets a call to a function (function, builtin or closure)
// fn with arguments args, returning its result.
// callpos is the position of the callsite.
func call(i *interpreter, caller *frame, callpos token.Pos, fn value, args []value) value {
	switch fn := fn.(type) {
	case *ssa.Function:
		if fn == nil {
			panic("call of nil function") // nil of func type
		}
		return callSSA(i, caller, callpos, fn, args, nil)
	case *closure:
		return callSSA(i, caller, callpos, fn.Fn, args, fn.Env)
	case *ssa.Builtin:
		return callBuiltin(caller, fn, args)
	case *hostFunc:
		return fn.f(i, args)
	case poison:
		return i.usePoison(fn)
	}
	panic(fmt.Sprintf("cannot call %T", fn))
}

func loc(fset *token.FileSet, pos token.Pos) string {
	if pos == token.NoPos {
		return ""
	}
	return " at " + fset.Position(pos).String()
}

// callSSA interprets a call to function fn with arguments args,
// and lexical environment env, returning its result.
// callpos is the position of the callsite.
func callSSA(i *interpreter, caller *frame, callpos token.Pos, fn *ssa.Function, args []value, env []value) value {
	if i.mode&EnableTracing != 0 {
		fset := fn.Prog.Fset
		// TODO(adonovan): fix: loc() lies for external functions.
		fmt.Fprintf(os.Stderr, "Entering %s%s.\n", fn, loc(fset, fn.Pos()))
		suffix := ""
		if caller != nil {
			suffix = ", resuming " + caller.fn.String() + loc(fset, callpos)
		}
		defer fmt.Fprintf(os.Stderr, "Leaving %s%s.\n", fn, suffix)
	}
	fr := &frame{
		i:      i,
		caller: caller, // for panic/recover
		fn:     fn,
	}
	if i.initDepth > 0 && caller != nil && fn.Synthetic == "package initializer" {
		return nil // imported packages are initialized lazily
	}
	i.callerPos = callpos
	if res, ok := i.tryIntrinsic(fr, fn, args); ok {
		return res
	}
	if fn.Blocks == nil {
		if fn.Pkg != nil {
			fn.Pkg.Build()
		}
		if fn.Blocks == nil {
			stack := ""
			if caller != nil {
				stack = " called from " + strings.Join(caller.stack(), " <- ")
			}
			panic(unsupported("no code for function %s%s", fn.String(), stack))
		}
	}
	if i.initDepth == 0 && i.isPure(fn) {
		if res, ok := i.callPure(caller, callpos, fn, args, env); ok {
			return res
		}
	}
	return callSSAInner(i, caller, callpos, fn, args, env)
}

// callSSAInner interprets the body of fn.
func callSSAInner(i *interpreter, caller *frame, callpos token.Pos, fn *ssa.Function, args []value, env []value) value {
	fr := &frame{
		i:      i,
		caller: caller, // for panic/recover
		fn:     fn,
	}
	i.depth++
	if i.depth > 400 {
		panic(unsupported("call depth exceeded in %s", fn.String()))
	}
	saved := i.cur
	i.cur = fr
	defer func() { i.depth--; i.cur = saved }()
	fs := i.stats.Funcs[fn.String()]
	if fs == nil {
		fs = &FuncStat{}
		i.stats.Funcs[fn.String()] = fs
	}
	fs.Entered++
	startInstrs := i.ctx.instrs
	defer func() { fs.Instrs += i.ctx.instrs - startInstrs }()

	// generic function body?
	if fn.TypeParams().Len() > 0 && len(fn.TypeArgs()) == 0 {
		panic("interp requires ssa.BuilderMode to include InstantiateGenerics to execute generics")
	}

	fr.env = make(map[ssa.Value]value)
	fr.block = fn.Blocks[0]
	fr.locals = make([]value, len(fn.Locals))
	sub := i.ctx.sub()
	for k, l := range fn.Locals {
		fr.locals[k] = zero(mustDeref(l.Type()))
		fr.env[l] = &fr.locals[k]
		if sub != nil {
			sub.registerCell(&fr.locals[k], 0)
		}
	}
	for k, p := range fn.Params {
		fr.env[p] = args[k]
	}
	for k, fv := range fn.FreeVars {
		fr.env[fv] = env[k]
	}
	for fr.block != nil {
		runFrame(fr)
	}
	return fr.result
}

// runFrame executes SSA instructions starting at fr.block and
// continuing until a return, a panic, or a recovered panic.
//
// After a panic, runFrame panics.
//
// After a normal return, fr.result contains the result of the call
// and fr.block is nil.
//
// A recovered panic in a function without named return parameters
// (NRPs) becomes a normal return of the zero value of the function's
// result type.
//
// After a recovered panic in a function with NRPs, fr.result is
// undefined and fr.block contains the block at which to resume
// control.
func runFrame(fr *frame) {
	defer func() {
		if fr.block == nil {
			return // normal return
		}
		if fr.i.mode&DisableRecover != 0 {
			return // let interpreter crash
		}
		r := recover()
		if !isTargetPanic(r) {
			fr.block = nil
			panic(r) // engine control flow (path end, unsupported): not visible to the target
		}
		if fr.i.lastStack == nil {
			fr.i.lastStack = fr.stack()
		}
		fr.panicking = true
		fr.panic = r
		if fr.i.mode&EnableTracing != 0 {
			fmt.Fprintf(os.Stderr, "Panicking: %T %v.\n", fr.panic, fr.panic)
		}
		fr.runDefers()
		fr.block = fr.fn.Recover
	}()

	for {
		if fr.i.mode&EnableTracing != 0 {
			fmt.Fprintf(os.Stderr, ".%s:\n", fr.block)
		}

		nonPhis := executePhis(fr)
		for _, instr := range nonPhis {
			if fr.i.mode&EnableTracing != 0 {
				if v, ok := instr.(ssa.Value); ok {
					fmt.Fprintln(os.Stderr, "\t", v.Name(), "=", instr)
				} else {
					fmt.Fprintln(os.Stderr, "\t", instr)
				}
			}
			if visitInstr(fr, instr) == kReturn {
				return
			}
			// Inv: kNext (continue) or kJump (last instr)
		}
	}
}

// executePhis executes the phi-nodes at the start of the current
// block and returns the non-phi instructions.
func executePhis(fr *frame) []ssa.Instruction {
	firstNonPhi := -1
	for i, instr := range fr.block.Instrs {
		if _, ok := instr.(*ssa.Phi); !ok {
			firstNonPhi = i
			break
		}
	}
	// Inv: 0 <= firstNonPhi; every block contains a non-phi.

	nonPhis := fr.block.Instrs[firstNonPhi:]
	if fr.skipPhis {
		fr.skipPhis = false
		return nonPhis
	}
	if firstNonPhi > 0 {
		phis := fr.block.Instrs[:firstNonPhi]
		// Execute parallel assignment of phis.
		//
		// See "the swap problem" in Briggs et al's "Practical Improvements
		// to the Construction and Destruction of SSA Form" for discussion.
		predIndex := slices.Index(fr.block.Preds, fr.prevBlock)
		fr.phitemps = fr.phitemps[:0]
		for _, phi := range phis {
			phi := phi.(*ssa.Phi)
			if fr.i.mode&EnableTracing != 0 {
				fmt.Fprintln(os.Stderr, "\t", phi.Name(), "=", phi)
			}
			fr.phitemps = append(fr.phitemps, fr.get(phi.Edges[predIndex]))
		}
		for i, phi := range phis {
			fr.env[phi.(*ssa.Phi)] = fr.phitemps[i]
		}
	}
	return nonPhis
}

// doRecover implements the recover() built-in.
func doRecover(caller *frame) value {
	// recover() must be exactly one level beneath the deferred
	// function (two levels beneath the panicking function) to
	// have any effect.  Thus we ignore both "defer recover()" and
	// "defer f() -> g() -> recover()".
	if caller != nil && caller.i.mode&DisableRecover == 0 &&
		!caller.panicking &&
		caller.caller != nil && caller.caller.panicking {
		caller.caller.panicking = false
		p := caller.caller.panic
		caller.caller.panic = nil
		caller.i.lastStack = nil

		// TODO(adonovan): support runtime.Goexit.
		switch p := p.(type) {
		case targetPanic:
			// The target program explicitly called panic().
			return p.v
		case runtime.Error:
			// The interpreter encountered a runtime error.
			return iface{caller.i.runtimeErrorString, p.Error()}
		case string:
			// The interpreter explicitly called panic().
			return iface{caller.i.runtimeErrorString, p}
		default:
			panic(fmt.Sprintf("unexpected panic type %T in target call to recover()", p))
		}
	}
	return iface{}
}

func isTargetPanic(r any) bool {
	switch r := r.(type) {
	case targetPanic:
		return true
	case runtime.Error:
		return isTargetRuntimeError(r.Error())
	}
	return false
}

func fieldName(instr *ssa.FieldAddr) string {
	if st, ok := mustDeref(instr.X.Type()).Underlying().(*types.Struct); ok {
		return st.Field(instr.Field).Name()
	}
	return "?"
}

func (fr *frame) stack() []string {
	var out []string
	for f := fr; f != nil && len(out) < 12; f = f.caller {
		out = append(out, f.fn.String())
	}
	return out
}

func (i *interpreter) where() string {
	var b strings.Builder
	if i.lastPos != token.NoPos {
		b.WriteString(" at " + i.ctx.posString(i.lastPos))
	}
	if i.cur != nil {
		b.WriteString(" in " + strings.Join(i.cur.stack(), " <- "))
	}
	return b.String()
}

// index resolves a (possibly symbolic) index against a concrete length.
func (i *interpreter) index(pos token.Pos, idx value, n int) int {
	if _, ok := idx.(symInt); ok {
		k, ok := i.ctx.concretizeInt(pos, idx, 0, int64(n)-1)
		if !ok {
			panic(targetPanic{fmt.Sprintf("runtime error: index out of range [symbolic] with length %d", n)})
		}
		return int(k)
	}
	k := asInt64(idx)
	if k < 0 || k >= int64(n) {
		panic(targetPanic{fmt.Sprintf("runtime error: index out of range [%d] with length %d", k, n)})
	}
	return int(k)
}

func (i *interpreter) panicString(v value) string {
	if it, ok := v.(iface); ok {
		if s, ok := it.v.(string); ok {
			return s
		}
		if it.t != nil {
			return it.t.String() + ": " + toString(it.v)
		}
	}
	return toString(v)
}

var _ = reflect.TypeOf
var _ = slices.Index[[]int]
