package interp

// time.Time model (DESIGN §3.5): structure{wall, ext, loc} with
//   wall = 0: instant = year 1 + ext ns  (the zero Time is {0,0,nil})
//   wall = 1: instant = Unix epoch + ext ns
// ext is a concrete int64 or a symbolic Int64. Instants of the two epochs are
// assumed never to cross (|ext| <= 2^61), so comparisons across epochs are
// decided by wall alone and Sub across epochs saturates like the real one.

import (
	"fmt"
	"go/token"
	"go/types"
	"math"
	"math/big"
	"time"

	"golang.org/x/tools/go/ssa"
)

const (
	tokenADD = token.ADD
	tokenSUB = token.SUB
	tokenEQL = token.EQL
	tokenLEQ = token.LEQ
	tokenLSS = token.LSS
	tokenGTR = token.GTR
	tokenGEQ = token.GEQ
)

func mkTime(wall uint64, ext value) structure {
	return structure{wall, ext, (*value)(nil)}
}

func timeParts(v value) (wall uint64, ext value) {
	s := v.(structure)
	w := s[0].(uint64)
	if w > 1 {
		panic(unsupported("time.Time value built outside the model (wall=%#x)", w))
	}
	return w, s[1]
}

func hostTimeToValue(t time.Time) structure {
	if t.IsZero() {
		return mkTime(0, int64(0))
	}
	return mkTime(1, t.UnixNano())
}

func valueToHostTime(v value) time.Time {
	w, ext := timeParts(v)
	if isSym(ext) {
		panic(unsupported("symbolic time passed to a natively executed function"))
	}
	if w == 0 {
		return time.Time{}.Add(time.Duration(ext.(int64)))
	}
	return time.Unix(0, ext.(int64)).UTC()
}

func (i *interpreter) timeCompare(op token.Token, x, y value) value {
	wx, ex := timeParts(x)
	wy, ey := timeParts(y)
	if wx != wy {
		switch op {
		case token.LSS, token.LEQ:
			return wx < wy
		case token.GTR, token.GEQ:
			return wx > wy
		case token.EQL:
			return false
		}
	}
	return binop(i, op, types.Typ[types.Int64], ex, ey)
}

func (i *interpreter) timeEqual(x, y value) value { return i.timeCompare(token.EQL, x, y) }

func (i *interpreter) timeSub(x, y value) value {
	wx, ex := timeParts(x)
	wy, ey := timeParts(y)
	if wx != wy {
		if wx > wy {
			return int64(math.MaxInt64)
		}
		return int64(math.MinInt64)
	}
	return binop(i, token.SUB, types.Typ[types.Int64], ex, ey)
}

func (i *interpreter) timeNow() value {
	// arbitrary non-decreasing instants
	t := i.newSymInt("time.Now", types.Int64, big.NewInt(-(1 << 61)), big.NewInt(1<<61))
	if i.clockNow != nil {
		i.ctx.doAssume(binop(i, token.GEQ, types.Typ[types.Int64], t, i.clockNow))
	}
	i.clockNow = t
	return mkTime(1, t)
}

func init() {
	registerIntrinsic(rtPkg+"Time", func(i *interpreter, fr *frame, fn *ssa.Function, a []value) value {
		t := i.newSymInt(a[0].(string), types.Int64, big.NewInt(-(1 << 61)), big.NewInt(1<<61))
		return mkTime(1, t)
	})
	registerIntrinsic(rtPkg+"Duration", func(i *interpreter, fr *frame, fn *ssa.Function, a []value) value {
		return i.newSymInt(a[0].(string), types.Int64, big.NewInt(asInt64(a[1])), big.NewInt(asInt64(a[2])))
	})
	registerIntrinsic("time.Now", func(i *interpreter, fr *frame, fn *ssa.Function, a []value) value { return i.timeNow() })
	registerIntrinsic("time.Since", func(i *interpreter, fr *frame, fn *ssa.Function, a []value) value {
		return i.timeSub(i.timeNow(), a[0])
	})
	registerIntrinsic("time.Until", func(i *interpreter, fr *frame, fn *ssa.Function, a []value) value {
		return i.timeSub(a[0], i.timeNow())
	})
	registerIntrinsic("time.Unix", func(i *interpreter, fr *frame, fn *ssa.Function, a []value) value {
		if isSym(a[0]) || isSym(a[1]) {
			sec := binop(i, token.MUL, types.Typ[types.Int64], a[0], int64(1e9))
			return mkTime(1, binop(i, token.ADD, types.Typ[types.Int64], sec, a[1]))
		}
		return hostTimeToValue(time.Unix(asInt64(a[0]), asInt64(a[1])))
	})
	registerIntrinsic("time.UnixMilli", func(i *interpreter, fr *frame, fn *ssa.Function, a []value) value {
		return mkTime(1, binop(i, token.MUL, types.Typ[types.Int64], a[0], int64(1e6)))
	})
	registerIntrinsic("time.Date", func(i *interpreter, fr *frame, fn *ssa.Function, a []value) value {
		for _, x := range a[:7] {
			if isSym(x) {
				panic(unsupported("time.Date with symbolic fields"))
			}
		}
		return hostTimeToValue(time.Date(int(asInt64(a[0])), time.Month(asInt64(a[1])), int(asInt64(a[2])), int(asInt64(a[3])), int(asInt64(a[4])), int(asInt64(a[5])), int(asInt64(a[6])), time.UTC))
	})
	registerIntrinsic("(time.Time).Add", func(i *interpreter, fr *frame, fn *ssa.Function, a []value) value {
		w, ext := timeParts(a[0])
		return mkTime(w, binop(i, token.ADD, types.Typ[types.Int64], ext, a[1]))
	})
	registerIntrinsic("(time.Time).Sub", func(i *interpreter, fr *frame, fn *ssa.Function, a []value) value {
		return i.timeSub(a[0], a[1])
	})
	cmp := func(op token.Token) intrinsic {
		return func(i *interpreter, fr *frame, fn *ssa.Function, a []value) value {
			return i.timeCompare(op, a[0], a[1])
		}
	}
	registerIntrinsic("(time.Time).After", cmp(token.GTR))
	registerIntrinsic("(time.Time).Before", cmp(token.LSS))
	registerIntrinsic("(time.Time).Equal", cmp(token.EQL))
	registerIntrinsic("(time.Time).Compare", func(i *interpreter, fr *frame, fn *ssa.Function, a []value) value {
		lt := i.timeCompare(token.LSS, a[0], a[1])
		gt := i.timeCompare(token.GTR, a[0], a[1])
		if !isSym(lt) && !isSym(gt) {
			switch {
			case lt.(bool):
				return -1
			case gt.(bool):
				return 1
			}
			return 0
		}
		return symInt{tIte(boolTerm(lt), intConst64(-1), tIte(boolTerm(gt), intConst64(1), intConst64(0))), types.Int}
	})
	registerIntrinsic("(time.Time).IsZero", func(i *interpreter, fr *frame, fn *ssa.Function, a []value) value {
		w, ext := timeParts(a[0])
		if w != 0 {
			return false
		}
		return binop(i, token.EQL, types.Typ[types.Int64], ext, int64(0))
	})
	ident := func(i *interpreter, fr *frame, fn *ssa.Function, a []value) value { return a[0] }
	registerIntrinsic("(time.Time).UTC", ident)
	registerIntrinsic("(time.Time).Local", ident)
	registerIntrinsic("(time.Time).In", ident)
	registerIntrinsic("(time.Time).Round", func(i *interpreter, fr *frame, fn *ssa.Function, a []value) value {
		if asInt64(a[1]) <= 0 {
			return a[0]
		}
		panic(unsupported("time.Time.Round"))
	})
	registerIntrinsic("(time.Time).Truncate", func(i *interpreter, fr *frame, fn *ssa.Function, a []value) value {
		w, ext := timeParts(a[0])
		if isSym(a[1]) {
			panic(unsupported("Truncate by a symbolic duration"))
		}
		d := asInt64(a[1])
		if d <= 0 {
			return a[0]
		}
		if w != 1 || int64(time.Second)%d != 0 && d%int64(time.Second) != 0 || d > int64(time.Second) && int64(time.Minute)%d != 0 {
			panic(unsupported("time.Time.Truncate(%v) outside the model", time.Duration(d)))
		}
		return mkTime(w, i.floorTo(ext, d))
	})
	registerIntrinsic("(time.Time).Unix", func(i *interpreter, fr *frame, fn *ssa.Function, a []value) value {
		w, ext := timeParts(a[0])
		if w != 1 {
			panic(unsupported("Unix() of a year-1-based time"))
		}
		return i.floorDivConst(ext, int64(time.Second))
	})
	registerIntrinsic("(time.Time).UnixNano", func(i *interpreter, fr *frame, fn *ssa.Function, a []value) value {
		w, ext := timeParts(a[0])
		if w != 1 {
			panic(unsupported("UnixNano() of a year-1-based time"))
		}
		return ext
	})
	registerIntrinsic("(time.Time).UnixMilli", func(i *interpreter, fr *frame, fn *ssa.Function, a []value) value {
		w, ext := timeParts(a[0])
		if w != 1 {
			panic(unsupported("UnixMilli() of a year-1-based time"))
		}
		return i.floorDivConst(ext, int64(time.Millisecond))
	})
	registerIntrinsic("(time.Time).Format", func(i *interpreter, fr *frame, fn *ssa.Function, a []value) value {
		w, ext := timeParts(a[0])
		layout := a[1].(string)
		if !isSym(ext) {
			return valueToHostTime(a[0]).Format(layout)
		}
		if layout != time.RFC3339 || w != 1 {
			return "<symbolic time>"
		}
		tab, _ := i.ext["timefmt"].(map[string]value)
		if tab == nil {
			tab = map[string]value{}
			i.ext["timefmt"] = tab
		}
		s := fmt.Sprintf("§t%d", len(tab))
		tab[s] = mkTime(1, i.floorTo(ext, int64(time.Second)))
		return s
	})
	registerIntrinsic("(time.Time).String", func(i *interpreter, fr *frame, fn *ssa.Function, a []value) value {
		_, ext := timeParts(a[0])
		if isSym(ext) {
			return "<symbolic time>"
		}
		return valueToHostTime(a[0]).String()
	})
	registerIntrinsic("time.Parse", func(i *interpreter, fr *frame, fn *ssa.Function, a []value) value {
		s := a[1].(string)
		if tab, _ := i.ext["timefmt"].(map[string]value); tab != nil {
			if t, ok := tab[s]; ok && a[0].(string) == time.RFC3339 {
				return tuple{t, iface{}}
			}
		}
		t, err := time.Parse(a[0].(string), s)
		if err != nil {
			return tuple{mkTime(0, int64(0)), i.hostErr(err)}
		}
		return tuple{hostTimeToValue(t), iface{}}
	})
	registerIntrinsic("time.ParseDuration", func(i *interpreter, fr *frame, fn *ssa.Function, a []value) value {
		s := a[0].(string)
		if tab, _ := i.ext["durations"].(map[string]value); tab != nil {
			if d, ok := tab[s]; ok {
				return tuple{d, iface{}}
			}
		}
		d, err := time.ParseDuration(s)
		return tuple{int64(d), i.hostErr(err)}
	})
	// verifrt.DurationString(label, lo, hi): a string that time.ParseDuration maps to a symbolic duration
	registerIntrinsic(rtPkg+"DurationString", func(i *interpreter, fr *frame, fn *ssa.Function, a []value) value {
		tab, _ := i.ext["durations"].(map[string]value)
		if tab == nil {
			tab = map[string]value{}
			i.ext["durations"] = tab
		}
		d := i.newSymInt(a[0].(string), types.Int64, big.NewInt(asInt64(a[1])), big.NewInt(asInt64(a[2])))
		s := fmt.Sprintf("§d%d", len(tab))
		tab[s] = d
		return s
	})
	registerIntrinsic(rtPkg+"DurationStringOf", func(i *interpreter, fr *frame, fn *ssa.Function, a []value) value {
		if !isSym(a[0]) {
			return time.Duration(asInt64(a[0])).String()
		}
		tab, _ := i.ext["durations"].(map[string]value)
		if tab == nil {
			tab = map[string]value{}
			i.ext["durations"] = tab
		}
		s := fmt.Sprintf("§d%d", len(tab))
		tab[s] = a[0]
		return s
	})
	registerIntrinsic("(time.Duration).String", func(i *interpreter, fr *frame, fn *ssa.Function, a []value) value {
		if isSym(a[0]) {
			return "<symbolic duration>"
		}
		return time.Duration(asInt64(a[0])).String()
	})
	durFloat := func(name string, den int64) {
		registerIntrinsic("(time.Duration)."+name, func(i *interpreter, fr *frame, fn *ssa.Function, a []value) value {
			if s, ok := a[0].(symInt); ok {
				// contract: |d| small enough (|d/den| < 2^22) that float64(sec)+float64(nsec)/den does not round across an integer
				return symFloat{t: &Term{S: "(fp.div RNE ((_ to_fp 11 53) RNE (to_real " + s.t.S + ")) " + fpConst(float64(den)).S + ")", Sort: SFP}, num: s.t, den: den}
			}
			d := time.Duration(asInt64(a[0]))
			switch name {
			case "Seconds":
				return d.Seconds()
			case "Minutes":
				return d.Minutes()
			}
			return d.Hours()
		})
	}
	durFloat("Seconds", int64(time.Second))
	durFloat("Minutes", int64(time.Minute))
	durFloat("Hours", int64(time.Hour))
	registerIntrinsic("time.Sleep", nop)
	registerIntrinsic("time.After", func(i *interpreter, fr *frame, fn *ssa.Function, a []value) value {
		c := &schan{cap: 1}
		c.buf = append(c.buf, i.timeNow())
		return c
	})
	registerIntrinsic("time.NewTimer", func(i *interpreter, fr *frame, fn *ssa.Function, a []value) value {
		panic(unsupported("time.NewTimer"))
	})
}

// floorDivConst returns floor(x / d) for d > 0.
func (i *interpreter) floorDivConst(x value, d int64) value {
	if s, ok := x.(symInt); ok {
		r := &Term{S: fmt.Sprintf("(div %s %d)", s.t.S, d), Sort: SInt}
		if s.t.lo != nil && s.t.hi != nil {
			r.lo, r.hi = floorDiv(s.t.lo, big.NewInt(d)), floorDiv(s.t.hi, big.NewInt(d))
		}
		return symInt{r, s.k}
	}
	v := asInt64(x)
	q := v / d
	if v%d < 0 {
		q--
	}
	return q
}

// floorTo returns x rounded down to a multiple of d (d > 0).
func (i *interpreter) floorTo(x value, d int64) value {
	q := i.floorDivConst(x, d)
	return binop(i, token.MUL, types.Typ[types.Int64], q, int64(d))
}
