package interp

// One solver process per worker, driven over a pipe with push/pop.

import (
	"bufio"
	"fmt"
	"io"
	"os/exec"
	"strings"
	"time"
)

type SolverStats struct {
	Sat, Unsat, Unknown, Errors int
	Time                        time.Duration
}

type Solver struct {
	cmd     *exec.Cmd
	in      io.WriteCloser
	out     *bufio.Reader
	lines   chan string
	Dead    bool
	Stats   SolverStats
	log     io.Writer // optional transcript
	timeout int       // ms per query
	argv    []string
}

const solverPrelude = `(set-option :print-success false)
(set-option :produce-models true)
(declare-fun atoi_ok (Int) Bool)
(declare-fun atoi_val (Int) Int)
(declare-fun atoi_canon (Int) Bool)
`

func NewSolver(argv []string, timeoutMs int, log io.Writer) (*Solver, error) {
	s := &Solver{argv: argv, timeout: timeoutMs, log: log}
	if err := s.start(); err != nil {
		return nil, err
	}
	return s, nil
}

func (s *Solver) start() error {
	cmd := exec.Command(s.argv[0], s.argv[1:]...)
	in, err := cmd.StdinPipe()
	if err != nil {
		return err
	}
	out, err := cmd.StdoutPipe()
	if err != nil {
		return err
	}
	cmd.Stderr = cmd.Stdout
	if err := cmd.Start(); err != nil {
		return err
	}
	s.cmd, s.in, s.out = cmd, in, bufio.NewReaderSize(out, 1<<16)
	s.lines = make(chan string, 64)
	go func(r *bufio.Reader, ch chan string) {
		defer close(ch)
		for {
			line, err := r.ReadString('\n')
			if line != "" {
				ch <- line
			}
			if err != nil {
				return
			}
		}
	}(s.out, s.lines)
	s.send(solverPrelude)
	if strings.Contains(s.argv[0], "z3") {
		s.send(fmt.Sprintf("(set-option :timeout %d)\n", s.timeout))
	}
	return nil
}

func (s *Solver) Close() {
	if s.cmd != nil {
		s.in.Close()
		s.cmd.Process.Kill()
		s.cmd.Wait()
		s.cmd = nil
	}
}

func (s *Solver) send(str string) {
	if s.Dead {
		return
	}
	if s.log != nil {
		io.WriteString(s.log, str)
	}
	if _, err := io.WriteString(s.in, str); err != nil {
		panic(unsupported("solver pipe closed: %v", err))
	}
}

func (s *Solver) Push()            { s.send("(push 1)\n") }
func (s *Solver) Pop()             { s.send("(pop 1)\n") }
func (s *Solver) Assert(t string)  { s.send("(assert " + t + ")\n") }
func (s *Solver) Declare(d string) { s.send(d + "\n") }

// readSexp reads one complete s-expression or atom line from the solver.
func (s *Solver) readSexp() string {
	var b strings.Builder
	depth := 0
	started := false
	// watchdog: some queries (int->FP conversions) make z3 ignore its own :timeout
	deadline := time.NewTimer(time.Duration(s.timeout)*time.Millisecond + 5*time.Second)
	defer deadline.Stop()
	for {
		var line string
		select {
		case l, ok := <-s.lines:
			if !ok {
				s.Dead = true
				panic(unsupported("solver died"))
			}
			line = l
		case <-deadline.C:
			s.Dead = true
			s.Stats.Unknown++
			s.cmd.Process.Kill()
			panic(unsupported("solver did not answer within the query timeout (killed)"))
		}
		b.WriteString(line)
		for _, c := range line {
			switch c {
			case '(':
				depth++
				started = true
			case ')':
				depth--
			default:
				if c != ' ' && c != '\n' && c != '\t' {
					started = true
				}
			}
		}
		if started && depth <= 0 {
			return strings.TrimSpace(b.String())
		}
	}
}

type SatResult int

const (
	Unsat SatResult = iota
	Sat
	Unknown
)

// Check runs (check-sat) under the current assertions plus extra (if any).
func (s *Solver) Check(extra ...string) SatResult {
	t0 := time.Now()
	if len(extra) > 0 {
		s.Push()
		for _, e := range extra {
			s.Assert(e)
		}
	}
	s.send("(check-sat)\n")
	r := s.readSexp()
	if len(extra) > 0 {
		s.Pop()
	}
	s.Stats.Time += time.Since(t0)
	switch r {
	case "sat":
		s.Stats.Sat++
		return Sat
	case "unsat":
		s.Stats.Unsat++
		return Unsat
	case "unknown", "timeout":
		s.Stats.Unknown++
		return Unknown
	}
	s.Stats.Errors++
	if s.log != nil {
		fmt.Fprintf(s.log, "; UNEXPECTED: %s\n", r)
	}
	return Unknown
}

// CheckModel is like Check but on Sat also returns the values of names.
func (s *Solver) CheckModel(names []string, extra ...string) (SatResult, map[string]string) {
	t0 := time.Now()
	s.Push()
	for _, e := range extra {
		s.Assert(e)
	}
	s.send("(check-sat)\n")
	r := s.readSexp()
	var model map[string]string
	res := Unknown
	switch r {
	case "sat":
		s.Stats.Sat++
		res = Sat
		model = map[string]string{}
		for _, n := range names {
			s.send("(get-value (" + n + "))\n")
			v := s.readSexp()
			// ((name value))
			v = strings.TrimSpace(v)
			if strings.HasPrefix(v, "(error") {
				s.Stats.Errors++
				continue
			}
			v = strings.TrimPrefix(v, "((")
			v = strings.TrimSuffix(v, "))")
			v = strings.TrimSpace(strings.TrimPrefix(v, n))
			model[n] = v
		}
	case "unsat":
		s.Stats.Unsat++
		res = Unsat
	case "unknown", "timeout":
		s.Stats.Unknown++
	default:
		s.Stats.Errors++
		if s.log != nil {
			fmt.Fprintf(s.log, "; UNEXPECTED: %s\n", r)
		}
	}
	s.Pop()
	s.Stats.Time += time.Since(t0)
	return res, model
}
