package interp

// Concurrency under the sequential model (DESIGN §3.10): goroutines started by
// `go` run to completion at the spawn point unless a scheduler is installed by
// the harness (see sched.go); channels are queues.

import (
	"go/token"
	"go/types"

	"golang.org/x/tools/go/ssa"
)

type schan struct {
	buf    []value
	cap    int
	closed bool
}

func (i *interpreter) makeChan(n int64) value { return &schan{cap: int(n)} }

func (i *interpreter) chanSend(ch, v value) {
	c := ch.(*schan)
	if c == nil {
		panic(unsupported("send on nil channel (blocks forever)"))
	}
	if c.closed {
		panic(targetPanic{"send on closed channel"})
	}
	c.buf = append(c.buf, v)
}

func (i *interpreter) chanRecv(ch value) (value, bool) {
	c := ch.(*schan)
	if c == nil {
		panic(unsupported("receive on nil channel (blocks forever)"))
	}
	if len(c.buf) > 0 {
		v := c.buf[0]
		c.buf = c.buf[1:]
		return v, true
	}
	if c.closed {
		return nil, false
	}
	panic(unsupported("receive would block under the sequential goroutine model"))
}

func (i *interpreter) chanClose(ch value) {
	c := ch.(*schan)
	if c == nil || c.closed {
		panic(targetPanic{"close of nil or closed channel"})
	}
	c.closed = true
}

func (i *interpreter) spawn(fr *frame, pos token.Pos, fn value, args []value) {
	// sequential model: run the goroutine to completion now
	call(i, nil, pos, fn, args)
}

func (i *interpreter) doSelect(fr *frame, instr *ssa.Select) value {
	// pick the first ready case in source order; default if none
	chosen := -1
	var recv value
	recvOk := false
	for k, st := range instr.States {
		c, _ := fr.get(st.Chan).(*schan)
		if c == nil {
			continue
		}
		if st.Dir == types.RecvOnly {
			if len(c.buf) > 0 || c.closed {
				chosen = k
				recv, recvOk = i.chanRecv(c)
				break
			}
		} else {
			chosen = k
			i.chanSend(c, fr.get(st.Send))
			break
		}
	}
	if chosen < 0 && instr.Blocking {
		panic(unsupported("select would block under the sequential goroutine model"))
	}
	r := tuple{chosen, recvOk}
	for k, st := range instr.States {
		if st.Dir == types.RecvOnly {
			var v value
			if k == chosen && recvOk {
				v = recv
			} else {
				v = zero(st.Chan.Type().Underlying().(*types.Chan).Elem())
			}
			r = append(r, v)
		}
	}
	return r
}
