package interp

// Library stubs by contract (DESIGN §4): robfig/cron schedules with a uniform
// period, apimachinery's percent scaling as exact integer arithmetic.

import (
	"fmt"
	"go/token"
	"go/types"
	"reflect"
	"sort"
	"strconv"
	"strings"
	"time"

	"golang.org/x/tools/go/ssa"
)

type cronModel struct {
	period, offset int64 // ns; hits are offset + k*period (UTC, Unix epoch aligned)
}

// parseCronModel understands the standard 5-field syntax for schedules with a
// uniform period: minute ∈ {*, */N (N | 60), m}, hour ∈ {*, h}, the other three
// fields "*"; and @hourly/@daily/@midnight. ok=false: syntax error (as robfig
// would report); unsupported valid expressions abort the path as inconclusive.
func parseCronModel(spec string) (m cronModel, ok bool) {
	spec = strings.TrimSpace(spec)
	if rest, found := strings.CutPrefix(spec, "TZ=UTC "); found {
		spec = strings.TrimSpace(rest)
	} else if strings.HasPrefix(spec, "TZ=") || strings.HasPrefix(spec, "CRON_TZ=") {
		panic(unsupported("cron schedule with a time zone other than UTC: %q", spec))
	}
	switch spec {
	case "@hourly":
		return cronModel{int64(time.Hour), 0}, true
	case "@daily", "@midnight":
		return cronModel{24 * int64(time.Hour), 0}, true
	}
	f := strings.Fields(spec)
	if len(f) != 5 {
		return m, false
	}
	for _, x := range f {
		for _, c := range x {
			if !strings.ContainsRune("0123456789*/,-?", c) && !(c >= 'a' && c <= 'z') && !(c >= 'A' && c <= 'Z') {
				return m, false
			}
		}
	}
	if f[2] != "*" || f[3] != "*" || f[4] != "*" {
		panic(unsupported("cron schedule %q is outside the modelled class (uniform period)", spec))
	}
	min, hour := f[0], f[1]
	switch {
	case hour == "*" && min == "*":
		return cronModel{int64(time.Minute), 0}, true
	case hour == "*" && strings.HasPrefix(min, "*/"):
		n, err := strconv.Atoi(min[2:])
		if err != nil || n <= 0 {
			return m, false
		}
		if 60%n != 0 {
			panic(unsupported("cron step %d does not divide 60", n))
		}
		return cronModel{int64(n) * int64(time.Minute), 0}, true
	case hour == "*":
		n, err := strconv.Atoi(min)
		if err != nil || n < 0 || n > 59 {
			return m, false
		}
		return cronModel{int64(time.Hour), int64(n) * int64(time.Minute)}, true
	}
	h, err1 := strconv.Atoi(hour)
	n, err2 := strconv.Atoi(min)
	if err1 != nil || err2 != nil || h < 0 || h > 23 || n < 0 || n > 59 {
		if strings.ContainsAny(hour+min, "*/,-") {
			panic(unsupported("cron schedule %q is outside the modelled class", spec))
		}
		return m, false
	}
	return cronModel{24 * int64(time.Hour), int64(h)*int64(time.Hour) + int64(n)*int64(time.Minute)}, true
}

func init() {
	const cronPkg = "github.com/robfig/cron/v3"
	registerIntrinsic(cronPkg+".ParseStandard", func(i *interpreter, fr *frame, fn *ssa.Function, a []value) value {
		spec := a[0].(string)
		m, ok := parseCronModel(spec)
		if !ok {
			return tuple{iface{}, i.newError("cron: invalid schedule " + spec)}
		}
		t := i.lookupType(cronPkg, "SpecSchedule")
		var cell value = zero(t)
		tab, _ := i.ext["cron"].(map[*value]cronModel)
		if tab == nil {
			tab = map[*value]cronModel{}
			i.ext["cron"] = tab
		}
		tab[&cell] = m
		return tuple{iface{t: types.NewPointer(t), v: &cell}, iface{}}
	})
	registerIntrinsic("(*"+cronPkg+".SpecSchedule).Next", func(i *interpreter, fr *frame, fn *ssa.Function, a []value) value {
		tab, _ := i.ext["cron"].(map[*value]cronModel)
		m, ok := tab[a[0].(*value)]
		if !ok {
			panic(unsupported("cron.SpecSchedule built outside the model"))
		}
		w, ext := timeParts(a[1])
		if w != 1 {
			panic(unsupported("cron Next of a year-1-based time"))
		}
		// robfig rounds up to the next whole second first and then searches strictly after t:
		// the next hit is the least offset + k*period that is > t (hits are whole seconds)
		i64 := types.Typ[types.Int64]
		rel := binop(i, token.SUB, i64, ext, m.offset)
		k := i.floorDivConst(rel, m.period)
		next := binop(i, token.ADD, i64, binop(i, token.MUL, i64, binop(i, token.ADD, i64, k, int64(1)), m.period), m.offset)
		return mkTime(1, next)
	})

	// intstr.GetScaledValueFromIntOrPercent: the library's own parsing is executed for real; only the
	// float rounding ceil/floor(value*total/100) is replaced by exact integer arithmetic (equal for |value*total| < 2^53)
	const intstrPkg = "k8s.io/apimachinery/pkg/util/intstr"
	registerIntrinsic(intstrPkg+".GetScaledValueFromIntOrPercent", func(i *interpreter, fr *frame, fn *ssa.Function, a []value) value {
		if a[0].(*value) == nil {
			return tuple{0, i.newError("nil value for IntOrString")}
		}
		pkg := i.prog.ImportedPackage(intstrPkg)
		safely := pkg.Func("getIntOrPercentValueSafely")
		r := call(i, fr, i.lastPos, safely, []value{a[0]}).(tuple)
		if e := r[2].(iface); e.t != nil {
			return tuple{0, i.newError("invalid value for IntOrString: " + i.errString(e))}
		}
		val := r[0]
		isPercent, ok := r[1].(bool)
		if !ok {
			panic(unsupported("symbolic isPercent"))
		}
		if !isPercent {
			return tuple{val, iface{}}
		}
		if isSym(val) {
			panic(unsupported("symbolic percentage"))
		}
		p := asInt64(val)
		total := a[1]
		roundUp := i.ctx.concretizeBool(i.lastPos, a[2])
		it := types.Typ[types.Int]
		prod := binop(i, token.MUL, it, int(p), total)
		var res value
		if roundUp {
			res = i.ceilDivConst(toInt64V(i, prod), 100)
		} else {
			res = i.floorDivConst(toInt64V(i, prod), 100)
		}
		return tuple{conv(i, it, types.Typ[types.Int64], res), iface{}}
	})
}

func toInt64V(i *interpreter, v value) value {
	return conv(i, types.Typ[types.Int64], types.Typ[types.Int], v)
}

var _ = fmt.Sprint

// ---- Kubernetes client helpers ----

var gvkTable = map[string][3]string{
	"sigs.k8s.io/karpenter/pkg/apis/v1.NodeClaim":           {"karpenter.sh", "v1", "NodeClaim"},
	"sigs.k8s.io/karpenter/pkg/apis/v1.NodePool":            {"karpenter.sh", "v1", "NodePool"},
	"sigs.k8s.io/karpenter/pkg/apis/v1alpha1.NodeOverlay":   {"karpenter.sh", "v1alpha1", "NodeOverlay"},
	"sigs.k8s.io/karpenter/pkg/test/v1alpha1.TestNodeClass": {"karpenter.test.sh", "v1alpha1", "TestNodeClass"},
	"k8s.io/api/core/v1.Node":                               {"", "v1", "Node"},
	"k8s.io/api/core/v1.Pod":                                {"", "v1", "Pod"},
	"k8s.io/api/core/v1.PersistentVolumeClaim":              {"", "v1", "PersistentVolumeClaim"},
	"k8s.io/api/apps/v1.DaemonSet":                          {"apps", "v1", "DaemonSet"},
	"k8s.io/api/policy/v1.PodDisruptionBudget":              {"policy", "v1", "PodDisruptionBudget"},
	"k8s.io/api/storage/v1.VolumeAttachment":                {"storage.k8s.io", "v1", "VolumeAttachment"},
}

func init() {
	registerIntrinsic("github.com/awslabs/operatorpkg/object.GVK", func(i *interpreter, fr *frame, fn *ssa.Function, a []value) value {
		o := a[0].(iface)
		if o.t == nil {
			panic(targetPanic{"object.GVK(nil)"})
		}
		t := o.t
		if p, ok := t.Underlying().(*types.Pointer); ok {
			t = p.Elem()
		}
		g, ok := gvkTable[typeString(t)]
		if !ok {
			panic(unsupported("object.GVK of %s", t))
		}
		return structure{g[0], g[1], g[2]}
	})
	registerIntrinsic("k8s.io/client-go/util/workqueue.ParallelizeUntil", func(i *interpreter, fr *frame, fn *ssa.Function, a []value) value {
		// one linearisation: pieces in index order (DESIGN §3.10)
		n, ok := i.ctx.concretizeInt(i.lastPos, a[2], 0, 64)
		if !ok {
			panic(unsupported("ParallelizeUntil with more than 64 pieces"))
		}
		for k := int64(0); k < n; k++ {
			call(i, fr, i.lastPos, a[3], []value{int(k)})
		}
		return nil
	})
	registerIntrinsic("k8s.io/client-go/util/retry.OnError", func(i *interpreter, fr *frame, fn *ssa.Function, a []value) value {
		// as many attempts as the backoff has steps (wait.Backoff{Duration, Factor, Jitter, Steps, Cap}); sleeping is a no-op
		steps := 1
		if b, ok := a[0].(structure); ok && len(b) >= 4 && !isSym(b[3]) {
			steps = int(asInt64(b[3]))
		}
		if steps < 1 {
			steps = 1
		}
		var err value = iface{}
		for attempt := 0; attempt < steps; attempt++ {
			err = call(i, fr, i.lastPos, a[2], nil)
			if err.(iface).t == nil {
				return err
			}
			if !i.ctx.concretizeBool(i.lastPos, call(i, fr, i.lastPos, a[1], []value{err})) {
				return err
			}
		}
		return err
	})
	registerIntrinsic("k8s.io/client-go/util/retry.RetryOnConflict", func(i *interpreter, fr *frame, fn *ssa.Function, a []value) value {
		var err value = iface{}
		for attempt := 0; attempt < 2; attempt++ {
			err = call(i, fr, i.lastPos, a[1], nil)
			if e := err.(iface); e.t == nil {
				return err
			}
		}
		return err
	})
}

// ---- patrickmn/go-cache: a map without expiry (TTL expiry is outside every claim that uses it) ----

func (i *interpreter) goCache(recv value) *omap {
	tab, _ := i.ext["gocache"].(map[*value]*omap)
	if tab == nil {
		tab = map[*value]*omap{}
		i.ext["gocache"] = tab
	}
	p := recv.(*value)
	if p == nil {
		panic(targetPanic{"go-cache: nil cache"})
	}
	m := tab[p]
	if m == nil {
		m = makeMap(types.Typ[types.String], 0).(*omap)
		tab[p] = m
	}
	return m
}

func init() {
	const cachePkg = "github.com/patrickmn/go-cache"
	registerIntrinsic(cachePkg+".New", func(i *interpreter, fr *frame, fn *ssa.Function, a []value) value {
		outerT := i.lookupType(cachePkg, "Cache")
		innerT := i.lookupType(cachePkg, "cache")
		var inner value = zero(innerT)
		var outer value = structure{&inner}
		_ = outerT
		return &outer
	})
	registerIntrinsic("(*"+cachePkg+".cache).Get", func(i *interpreter, fr *frame, fn *ssa.Function, a []value) value {
		v, ok := i.goCache(a[0]).lookup(a[1])
		if !ok {
			return tuple{iface{}, false}
		}
		return tuple{v, true}
	})
	set := func(i *interpreter, fr *frame, fn *ssa.Function, a []value) value {
		i.ctx.noEffect("go-cache Set")
		i.goCache(a[0]).insert(a[1], a[2])
		return nil
	}
	registerIntrinsic("(*"+cachePkg+".cache).Set", set)
	registerIntrinsic("(*"+cachePkg+".cache).SetDefault", set)
	registerIntrinsic("(*"+cachePkg+".cache).Delete", func(i *interpreter, fr *frame, fn *ssa.Function, a []value) value {
		i.ctx.noEffect("go-cache Delete")
		i.goCache(a[0]).delete(a[1])
		return nil
	})
	registerIntrinsic("(*"+cachePkg+".cache).Flush", func(i *interpreter, fr *frame, fn *ssa.Function, a []value) value {
		i.goCache(a[0]).clear()
		return nil
	})
	registerIntrinsic("(*"+cachePkg+".cache).ItemCount", func(i *interpreter, fr *frame, fn *ssa.Function, a []value) value {
		return i.goCache(a[0]).len()
	})
}

func init() {
	// context plumbing of the (otherwise no-op) logging packages must keep the context
	keepCtx := func(i *interpreter, fr *frame, fn *ssa.Function, a []value) value { return a[0] }
	registerIntrinsic("sigs.k8s.io/controller-runtime/pkg/log.IntoContext", keepCtx)
	registerIntrinsic("github.com/go-logr/logr.NewContext", keepCtx)
	registerIntrinsic("k8s.io/klog/v2.NewContext", keepCtx)
}

// ---- mitchellh/hashstructure: a deterministic hash of the canonical rendering of the value ----
// Equal values (modulo ignored fields, map order and, where requested, slice order) hash equal; distinct values hash
// differently up to FNV collisions. The library's own reflection walk is outside the claim.

func (i *interpreter) canon(t types.Type, v value, asSet bool, b *strings.Builder, depth int) {
	if depth > 40 {
		panic(unsupported("hashstructure: value too deep"))
	}
	if isSym(v) {
		panic(unsupported("hashstructure of a symbolic value"))
	}
	switch u := t.Underlying().(type) {
	case *types.Basic:
		fmt.Fprintf(b, "%v;", v)
	case *types.Pointer:
		p := v.(*value)
		if p == nil {
			b.WriteString("nil;")
			return
		}
		i.canon(u.Elem(), *p, false, b, depth+1)
	case *types.Struct:
		s := v.(structure)
		b.WriteString("{")
		for k := 0; k < u.NumFields(); k++ {
			tag := reflect.StructTag(u.Tag(k)).Get("hash")
			if tag == "ignore" || tag == "-" {
				continue
			}
			f := u.Field(k)
			if !f.Exported() {
				continue // hashstructure skips unexported fields
			}
			b.WriteString(f.Name() + ":")
			i.canon(f.Type(), s[k], asSet || tag == "set", b, depth+1)
		}
		b.WriteString("}")
	case *types.Slice:
		xs := v.([]value)
		parts := make([]string, len(xs))
		for k := range xs {
			var eb strings.Builder
			i.canon(u.Elem(), xs[k], asSet, &eb, depth+1)
			parts[k] = eb.String()
		}
		if asSet {
			sort.Strings(parts)
		}
		b.WriteString("[" + strings.Join(parts, ",") + "]")
	case *types.Array:
		xs := v.(array)
		b.WriteString("[")
		for k := range xs {
			i.canon(u.Elem(), xs[k], asSet, b, depth+1)
		}
		b.WriteString("]")
	case *types.Map:
		m := v.(*omap)
		var parts []string
		if m != nil {
			for k := range m.keys {
				var eb strings.Builder
				i.canon(u.Key(), m.keys[k], asSet, &eb, depth+1)
				eb.WriteString("=>")
				i.canon(u.Elem(), m.vals[k], asSet, &eb, depth+1)
				parts = append(parts, eb.String())
			}
		}
		sort.Strings(parts)
		b.WriteString("map[" + strings.Join(parts, ",") + "]")
	case *types.Interface:
		it := v.(iface)
		if it.t == nil {
			b.WriteString("nil;")
			return
		}
		i.canon(it.t, it.v, asSet, b, depth+1)
	default:
		panic(unsupported("hashstructure of %s", t))
	}
}

func init() {
	registerIntrinsic("github.com/mitchellh/hashstructure/v2.Hash", func(i *interpreter, fr *frame, fn *ssa.Function, a []value) value {
		v := a[0].(iface)
		asSet := false
		if p, ok := a[2].(*value); ok && p != nil {
			if opts, ok := (*p).(structure); ok && len(opts) >= 5 {
				asSet, _ = opts[4].(bool)
			}
		}
		var b strings.Builder
		if v.t != nil {
			i.canon(v.t, v.v, asSet, &b, 0)
		}
		h := uint64(14695981039346656037)
		for _, c := range []byte(b.String()) {
			h ^= uint64(c)
			h *= 1099511628211
		}
		return tuple{h, iface{}}
	})
}

// ---- identifiers drawn from crypto/rand: a fresh deterministic string per call ----
func init() {
	registerIntrinsic("github.com/google/uuid.New", func(i *interpreter, fr *frame, fn *ssa.Function, a []value) value {
		i.ctx.uuidSeq++
		out := make(array, 16)
		for k := range out {
			out[k] = uint8(0)
		}
		out[14], out[15] = uint8(i.ctx.uuidSeq>>8), uint8(i.ctx.uuidSeq)
		return out
	})
	registerIntrinsic("k8s.io/apimachinery/pkg/util/uuid.NewUUID", func(i *interpreter, fr *frame, fn *ssa.Function, a []value) value {
		i.ctx.uuidSeq++
		return fmt.Sprintf("00000000-0000-4000-8000-%012d", i.ctx.uuidSeq)
	})
}

// ---- go.uber.org/multierr: the combined message is the members' messages joined by "; " (its single-line format);
// built at the interpreter level so that modelled strings inside error texts are not treated as inspected ----
func init() {
	registerIntrinsic("(*go.uber.org/multierr.multiError).Error", func(i *interpreter, fr *frame, fn *ssa.Function, a []value) value {
		p, _ := a[0].(*value)
		if p == nil {
			return ""
		}
		st := (*p).(structure)
		errs, _ := st[len(st)-1].([]value)
		var msgs []string
		for _, e := range errs {
			if it, ok := e.(iface); ok {
				msgs = append(msgs, i.errString(it))
			}
		}
		return strings.Join(msgs, "; ")
	})
}
