package interp

import (
	"os"
	"fmt"
	"go/types"
	"math/big"
	"sort"
	"strconv"
	"strings"
	"unicode"
	"unicode/utf8"

	"golang.org/x/tools/go/ssa"
)

type bigInt = big.Int

const rtPkg = "sigs.k8s.io/karpenter/pkg/verifrt."

func init() {
	// ---- verifrt ----
	registerIntrinsic(rtPkg+"Bool", func(i *interpreter, fr *frame, fn *ssa.Function, a []value) value {
		return symBool{i.ctx.newInput(a[0].(string), SBool, "bool")}
	})
	registerIntrinsic(rtPkg+"Int", func(i *interpreter, fr *frame, fn *ssa.Function, a []value) value {
		return i.newSymInt(a[0].(string), types.Int, nil, nil)
	})
	registerIntrinsic(rtPkg+"Int64", func(i *interpreter, fr *frame, fn *ssa.Function, a []value) value {
		return i.newSymInt(a[0].(string), types.Int64, nil, nil)
	})
	registerIntrinsic(rtPkg+"IntRange", func(i *interpreter, fr *frame, fn *ssa.Function, a []value) value {
		lo, hi := asInt64(a[1]), asInt64(a[2])
		if lo > hi {
			panic(pathEnd{"assume_false"})
		}
		if lo == hi {
			i.ctx.concreteInput(a[0].(string), lo)
			return int(lo)
		}
		return i.newSymInt(a[0].(string), types.Int, big.NewInt(lo), big.NewInt(hi))
	})
	registerIntrinsic(rtPkg+"Float", func(i *interpreter, fr *frame, fn *ssa.Function, a []value) value {
		t := i.ctx.newInput(a[0].(string), SFP, "float")
		i.ctx.assertPC(&Term{S: "(not (or (fp.isNaN " + t.S + ") (fp.isInfinite " + t.S + ")))", Sort: SBool})
		return symFloat{t: t}
	})
	registerIntrinsic(rtPkg+"Choice", func(i *interpreter, fr *frame, fn *ssa.Function, a []value) value {
		lo, hi := asInt64(a[1]), asInt64(a[2])
		if lo > hi {
			panic(pathEnd{"assume_false"})
		}
		alts := make([]*Term, hi-lo+1)
		k := i.ctx.fork("choice", i.lastPos, alts)
		v := lo + int64(k)
		i.ctx.concreteInput(a[0].(string), v)
		return int(v)
	})
	registerIntrinsic(rtPkg+"Bound", func(i *interpreter, fr *frame, fn *ssa.Function, a []value) value {
		v := asInt64(a[1])
		if i.eng.Cfg.Tier == "thorough" {
			v = asInt64(a[2])
		}
		// experiments only (never set by a registered command): VERIF_BOUND_<label>=<n>
		if o := os.Getenv("VERIF_BOUND_" + a[0].(string)); o != "" {
			if n, err := strconv.ParseInt(o, 10, 64); err == nil {
				v = n
			}
		}
		i.ctx.concreteInput("bound:"+a[0].(string), v)
		return int(v)
	})
	registerIntrinsic(rtPkg+"Atom", func(i *interpreter, fr *frame, fn *ssa.Function, a []value) value {
		idx := int(asInt64(a[0]))
		return i.ctx.atom(idx).name
	})
	registerIntrinsic(rtPkg+"Assume", func(i *interpreter, fr *frame, fn *ssa.Function, a []value) value {
		i.ctx.doAssume(a[0])
		return nil
	})
	registerIntrinsic(rtPkg+"Assert", func(i *interpreter, fr *frame, fn *ssa.Function, a []value) value {
		pos := i.lastPos
		if fr.caller != nil {
			pos = i.callerPos
		}
		i.ctx.doAssert(a[0], a[1].(string), pos, fr.stack())
		return nil
	})
	registerIntrinsic(rtPkg+"Reach", func(i *interpreter, fr *frame, fn *ssa.Function, a []value) value {
		i.ctx.noEffect("verifrt.Reach")
		i.ctx.reach[a[0].(string)] = true
		return nil
	})
	registerIntrinsic(rtPkg+"ExpectPanic", func(i *interpreter, fr *frame, fn *ssa.Function, a []value) value {
		i.ctx.expectPanic = true
		return nil
	})
	registerIntrinsic(rtPkg+"Observe", func(i *interpreter, fr *frame, fn *ssa.Function, a []value) value {
		i.ctx.observe(a[0].(string), a[1].(iface).v)
		return nil
	})
	registerIntrinsic(rtPkg+"KnownFinding", func(i *interpreter, fr *frame, fn *ssa.Function, a []value) value {
		i.ctx.noEffect("verifrt.KnownFinding")
		id := a[0].(string)
		t := boolTerm(a[1])
		if old, ok := i.ctx.sigs[id]; ok {
			i.ctx.sigs[id] = tOr(old, t)
		} else {
			i.ctx.sigs[id] = t
			i.ctx.sigOrd = append(i.ctx.sigOrd, id)
		}
		return nil
	})
	registerIntrinsic(rtPkg+"Symbolic", func(i *interpreter, fr *frame, fn *ssa.Function, a []value) value { return true })
	registerIntrinsic(rtPkg+"Freeze", func(i *interpreter, fr *frame, fn *ssa.Function, a []value) value {
		i.freeze(a[0])
		return nil
	})
	registerIntrinsic(rtPkg+"Thaw", func(i *interpreter, fr *frame, fn *ssa.Function, a []value) value {
		i.thaw(a[0])
		return nil
	})
	registerIntrinsic(rtPkg+"Ite", func(i *interpreter, fr *frame, fn *ssa.Function, a []value) value {
		// generic Ite[T](c bool, a, b T) T
		switch c := a[0].(type) {
		case bool:
			if c {
				return a[1]
			}
			return a[2]
		case symBool:
			if v, ok := i.iteValue(c.t, a[1], a[2]); ok {
				return v
			}
			if i.ctx.branch(i.lastPos, c.t) {
				return a[1]
			}
			return a[2]
		}
		panic("Ite")
	})

	// ---- strconv ----
	registerIntrinsic("strconv.Atoi", func(i *interpreter, fr *frame, fn *ssa.Function, a []value) value {
		return i.atoi(a[0].(string), types.Int)
	})
	registerIntrinsic("strconv.ParseInt", func(i *interpreter, fr *frame, fn *ssa.Function, a []value) value {
		s := a[0].(string)
		if _, isAtom := i.ctx.atoms[s]; isAtom {
			if asInt64(a[1]) != 10 || asInt64(a[2]) != 64 {
				panic(unsupported("ParseInt of a symbolic label value with base/bits other than 10/64"))
			}
			return i.atoi(s, types.Int64)
		}
		v, err := strconv.ParseInt(s, int(asInt64(a[1])), int(asInt64(a[2])))
		return tuple{v, i.hostErr(err)}
	})
	fmtInt := func(i *interpreter, fr *frame, fn *ssa.Function, a []value) value {
		if s, ok := a[0].(symInt); ok {
			if len(a) > 1 && asInt64(a[1]) != 10 {
				panic(unsupported("FormatInt of a symbolic value with base != 10"))
			}
			return i.ctx.formatInt(i, s)
		}
		if len(a) > 1 {
			return strconv.FormatInt(asInt64(a[0]), int(asInt64(a[1])))
		}
		return strconv.Itoa(int(asInt64(a[0])))
	}
	registerIntrinsic("strconv.Itoa", fmtInt)
	registerIntrinsic("strconv.FormatInt", fmtInt)
	registerIntrinsic("strconv.FormatUint", native(strconv.FormatUint))
	registerIntrinsic("strconv.ParseUint", native(strconv.ParseUint))
	registerIntrinsic("strconv.ParseFloat", func(i *interpreter, fr *frame, fn *ssa.Function, a []value) value {
		str := a[0].(string)
		if at, isAtom := i.ctx.atoms[str]; isAtom {
			// the decimal rendering of a symbolic integer parses back to that integer
			if i.ctx.branch(i.lastPos, at.ok) {
				return tuple{symFloat{num: at.val, den: 1}, iface{}}
			}
			return tuple{float64(0), i.newError("strconv.ParseFloat: parsing " + str + ": invalid syntax")}
		}
		v, err := strconv.ParseFloat(str, int(asInt64(a[1])))
		return tuple{v, i.hostErr(err)}
	})
	registerIntrinsic("strconv.ParseBool", native(strconv.ParseBool))
	registerIntrinsic("strconv.FormatBool", native(strconv.FormatBool))
	registerIntrinsic("strconv.FormatFloat", native(strconv.FormatFloat))
	registerIntrinsic("strconv.Quote", native(strconv.Quote))
	registerIntrinsic("strconv.Unquote", native(strconv.Unquote))

	// ---- strings / unicode (pure, concrete only) ----
	for name, f := range map[string]any{
		"strings.HasPrefix": strings.HasPrefix, "strings.HasSuffix": strings.HasSuffix, "strings.Contains": strings.Contains,
		"strings.ContainsAny": strings.ContainsAny, "strings.ContainsRune": strings.ContainsRune,
		"strings.Index": strings.Index, "strings.IndexByte": strings.IndexByte, "strings.IndexAny": strings.IndexAny, "strings.IndexRune": strings.IndexRune,
		"strings.LastIndex": strings.LastIndex, "strings.LastIndexByte": strings.LastIndexByte,
		"strings.Split": strings.Split, "strings.SplitN": strings.SplitN, "strings.Join": strings.Join, "strings.Fields": strings.Fields,
		"strings.ToLower": strings.ToLower, "strings.ToUpper": strings.ToUpper, "strings.TrimSpace": strings.TrimSpace,
		"strings.Trim": strings.Trim, "strings.TrimLeft": strings.TrimLeft, "strings.TrimRight": strings.TrimRight,
		"strings.TrimPrefix": strings.TrimPrefix, "strings.TrimSuffix": strings.TrimSuffix, "strings.Repeat": strings.Repeat,
		"strings.Replace": strings.Replace, "strings.ReplaceAll": strings.ReplaceAll, "strings.EqualFold": strings.EqualFold,
		"strings.Count": strings.Count, "strings.Compare": strings.Compare, "strings.Title": strings.Title,
		"unicode.IsDigit": unicode.IsDigit, "unicode.IsLetter": unicode.IsLetter, "unicode.IsSpace": unicode.IsSpace,
		"unicode.IsUpper": unicode.IsUpper, "unicode.IsLower": unicode.IsLower, "unicode.ToLower": unicode.ToLower, "unicode.ToUpper": unicode.ToUpper,
		"unicode/utf8.RuneCountInString": utf8.RuneCountInString, "unicode/utf8.ValidString": utf8.ValidString,
		"unicode/utf8.RuneLen": utf8.RuneLen,
		"sort.Strings":         nil, "sort.Ints": nil,
	} {
		if f != nil {
			registerIntrinsic(name, native(f))
		}
	}
	registerIntrinsic("strings.Cut", func(i *interpreter, fr *frame, fn *ssa.Function, a []value) value {
		b, af, ok := strings.Cut(a[0].(string), a[1].(string))
		return tuple{b, af, ok}
	})
	registerIntrinsic("strings.CutPrefix", func(i *interpreter, fr *frame, fn *ssa.Function, a []value) value {
		af, ok := strings.CutPrefix(a[0].(string), a[1].(string))
		return tuple{af, ok}
	})
	registerIntrinsic("strings.CutSuffix", func(i *interpreter, fr *frame, fn *ssa.Function, a []value) value {
		af, ok := strings.CutSuffix(a[0].(string), a[1].(string))
		return tuple{af, ok}
	})
	registerIntrinsic("sort.Strings", func(i *interpreter, fr *frame, fn *ssa.Function, a []value) value {
		s := a[0].([]value)
		sort.SliceStable(s, func(x, y int) bool { return s[x].(string) < s[y].(string) })
		return nil
	})
	registerIntrinsic("sort.Ints", func(i *interpreter, fr *frame, fn *ssa.Function, a []value) value {
		s := a[0].([]value)
		for _, e := range s {
			if isSym(e) {
				panic(unsupported("sort.Ints on symbolic values"))
			}
		}
		sort.SliceStable(s, func(x, y int) bool { return asInt64(s[x]) < asInt64(s[y]) })
		return nil
	})
	sortSlice := func(i *interpreter, fr *frame, fn *ssa.Function, a []value) value {
		s, _ := a[0].(iface).v.([]value)
		less := a[1]
		// insertion sort by adjacent swaps, calling the real comparator (DESIGN §3.9)
		for x := 1; x < len(s); x++ {
			for y := x; y > 0; y-- {
				r := call(i, fr, i.lastPos, less, []value{y, y - 1})
				if !i.ctx.concretizeBool(i.lastPos, r) {
					break
				}
				s[y], s[y-1] = s[y-1], s[y]
			}
		}
		return nil
	}
	registerIntrinsic("sort.Slice", sortSlice)
	registerIntrinsic("sort.SliceStable", sortSlice)

	// ---- fmt ----
	registerIntrinsic("fmt.Sprintf", func(i *interpreter, fr *frame, fn *ssa.Function, a []value) value {
		args := a[1].([]value)
		if f := a[0].(string); len(args) == 1 && (f == "%d" || f == "%v") {
			if it, ok := args[0].(iface); ok {
				if s, ok := it.v.(symInt); ok {
					return i.ctx.formatInt(i, s)
				}
			}
		}
		return i.sprintf(a[0].(string), args)
	})
	registerIntrinsic("fmt.Sprint", func(i *interpreter, fr *frame, fn *ssa.Function, a []value) value {
		args := a[0].([]value)
		if len(args) == 1 {
			if it, ok := args[0].(iface); ok {
				if s, ok := it.v.(symInt); ok {
					return i.ctx.formatInt(i, s)
				}
			}
		}
		return fmt.Sprint(i.hostArgs(args)...)
	})
	registerIntrinsic("fmt.Sprintln", func(i *interpreter, fr *frame, fn *ssa.Function, a []value) value {
		return fmt.Sprintln(i.hostArgs(a[0].([]value))...)
	})
	registerIntrinsic("fmt.Errorf", func(i *interpreter, fr *frame, fn *ssa.Function, a []value) value {
		format := a[0].(string)
		args := a[1].([]value)
		msg := i.sprintf(strings.ReplaceAll(format, "%w", "%v"), args)
		// find %w operands
		var wrapped []value
		argN := 0
		for k := 0; k < len(format); k++ {
			if format[k] != '%' {
				continue
			}
			k++
			for k < len(format) && strings.ContainsRune("+-# 0123456789.*[]", rune(format[k])) {
				k++
			}
			if k >= len(format) {
				break
			}
			if format[k] == '%' {
				continue
			}
			if format[k] == 'w' && argN < len(args) {
				if e, ok := args[argN].(iface); ok && e.t != nil {
					wrapped = append(wrapped, e)
				}
			}
			argN++
		}
		switch len(wrapped) {
		case 0:
			return i.newError(msg)
		case 1:
			t := i.lookupType("fmt", "wrapError")
			var cell value = structure{msg, wrapped[0]}
			return iface{t: types.NewPointer(t), v: &cell}
		}
		t := i.lookupType("fmt", "wrapErrors")
		var cell value = structure{msg, wrapped}
		return iface{t: types.NewPointer(t), v: &cell}
	})
	for _, n := range []string{"fmt.Printf", "fmt.Println", "fmt.Print", "fmt.Fprintf", "fmt.Fprintln", "fmt.Fprint"} {
		registerIntrinsic(n, func(i *interpreter, fr *frame, fn *ssa.Function, a []value) value { return zeroResults(fn) })
	}

	// ---- errors ----
	registerIntrinsic("errors.Is", func(i *interpreter, fr *frame, fn *ssa.Function, a []value) value {
		return i.errorsIs(a[0].(iface), a[1].(iface), 0)
	})
	registerIntrinsic("errors.As", func(i *interpreter, fr *frame, fn *ssa.Function, a []value) value {
		target := a[1].(iface)
		ptr, ok := target.t.Underlying().(*types.Pointer)
		if !ok || target.v.(*value) == nil {
			panic(targetPanic{"errors: target must be a non-nil pointer"})
		}
		return i.errorsAs(a[0].(iface), ptr.Elem(), target.v.(*value), 0)
	})
	registerIntrinsic("errors.Unwrap", func(i *interpreter, fr *frame, fn *ssa.Function, a []value) value {
		e := a[0].(iface)
		if m := i.hasMethod(e.t, "Unwrap"); m != nil {
			if sig := m.Type().(*types.Signature); sig.Results().Len() == 1 {
				if _, isSlice := sig.Results().At(0).Type().Underlying().(*types.Slice); !isSlice {
					r, _ := i.callMethod(e, "Unwrap")
					return r
				}
			}
		}
		return iface{}
	})
	registerIntrinsic("errors.Join", func(i *interpreter, fr *frame, fn *ssa.Function, a []value) value {
		var errs []value
		for _, e := range a[0].([]value) {
			if e.(iface).t != nil {
				errs = append(errs, e)
			}
		}
		if len(errs) == 0 {
			return iface{}
		}
		t := i.lookupType("errors", "joinError")
		var cell value = structure{errs}
		return iface{t: types.NewPointer(t), v: &cell}
	})
}

func (i *interpreter) hostErr(err error) iface {
	if err == nil {
		return iface{}
	}
	return i.newError(err.Error())
}

func (i *interpreter) newSymInt(label string, k types.BasicKind, lo, hi *big.Int) value {
	t := i.ctx.newInput(label, SInt, "int")
	klo, khi := kindRange(k)
	if lo == nil {
		lo = klo
	}
	if hi == nil {
		hi = khi
	}
	t.lo, t.hi = lo, hi
	i.ctx.solver.Assert("(and (<= " + bigStr(lo) + " " + t.S + ") (<= " + t.S + " " + bigStr(hi) + "))")
	return symInt{t, k}
}

// ---- atoms: label values with a symbolic numeric interpretation (DESIGN §3.3) ----

type atomRef struct {
	name string
	*atomInfo
}

func (c *pathCtx) atom(idx int) atomRef {
	name := fmt.Sprintf("§a%d", idx)
	if a, ok := c.atoms[name]; ok {
		return atomRef{name, a}
	}
	a := &atomInfo{idx: idx}
	a.ok = c.newInput(fmt.Sprintf("atom%d.ok", idx), SBool, "bool")
	a.val = c.newInput(fmt.Sprintf("atom%d.val", idx), SInt, "int")
	a.canon = c.newInput(fmt.Sprintf("atom%d.canon", idx), SBool, "bool")
	lo, hi := kindRange(types.Int64)
	a.val.lo, a.val.hi = lo, hi
	c.solver.Assert("(and (<= " + bigStr(lo) + " " + a.val.S + ") (<= " + a.val.S + " " + bigStr(hi) + "))")
	// canonical decimal implies parseable; two distinct atoms cannot both be the canonical decimal of one integer
	c.solver.Assert("(=> " + a.canon.S + " " + a.ok.S + ")")
	for _, on := range c.atomOrd {
		o := c.atoms[on]
		c.solver.Assert("(not (and " + a.canon.S + " " + o.canon.S + " (= " + a.val.S + " " + o.val.S + ")))")
	}
	c.atoms[name] = a
	c.atomOrd = append(c.atomOrd, name)
	return atomRef{name, a}
}

func (i *interpreter) atoi(s string, k types.BasicKind) value {
	a, isAtom := i.ctx.atoms[s]
	if !isAtom {
		v, err := strconv.Atoi(s)
		return tuple{concreteOfKind(k, big.NewInt(int64(v))), i.hostErr(err)}
	}
	if i.ctx.branch(i.lastPos, a.ok) {
		return tuple{symInt{a.val, k}, iface{}}
	}
	return tuple{concreteOfKind(k, big.NewInt(0)), i.newError("strconv.Atoi: parsing " + s + ": invalid syntax")}
}

// formatInt models strconv.Itoa(n) for symbolic n: the result is either one of
// the existing atoms (when that atom is the canonical decimal of n) or a fresh
// string distinct from all of them.
func (c *pathCtx) formatInt(i *interpreter, n symInt) value {
	var alts []*Term
	var none []*Term
	for _, name := range c.atomOrd {
		a := c.atoms[name]
		is := tAnd(a.canon, tCmp("=", a.val, n.t))
		alts = append(alts, is)
		none = append(none, tNot(is))
	}
	alts = append(alts, tAnd(none...))
	k := c.fork("itoa", i.lastPos, alts)
	if k < len(c.atomOrd) {
		return c.atomOrd[k]
	}
	c.noEffect("fresh formatted integer")
	c.fresh++
	name := fmt.Sprintf("§f%d", c.fresh)
	c.atoms[name] = &atomInfo{idx: -c.fresh, ok: trueT, val: n.t, canon: trueT}
	c.atomOrd = append(c.atomOrd, name)
	return name
}

// observe records a scalar for translation validation. Symbolic values are
// bound to a fresh constant whose model value is read back with the sample.
func (c *pathCtx) observe(label string, v value) {
	c.noEffect("verifrt.Observe")
	o := obsRaw{label: label}
	switch x := v.(type) {
	case symBool:
		o.name, o.sort = fmt.Sprintf("obs!%d", len(c.obsRaw)), SBool
		c.solver.Declare("(declare-const " + smtName(o.name) + " Bool)")
		c.solver.Assert("(= " + smtName(o.name) + " " + x.t.S + ")")
	case symInt:
		o.name, o.sort = fmt.Sprintf("obs!%d", len(c.obsRaw)), SInt
		c.solver.Declare("(declare-const " + smtName(o.name) + " Int)")
		c.solver.Assert("(= " + smtName(o.name) + " " + x.t.S + ")")
	case symFloat:
		o.name, o.sort = fmt.Sprintf("obs!%d", len(c.obsRaw)), SFP
		c.solver.Declare("(declare-const " + smtName(o.name) + " (_ FloatingPoint 11 53))")
		c.solver.Assert("(= " + smtName(o.name) + " " + fpTerm(x).S + ")")
	case bool, int, int8, int16, int32, int64, uint, uint8, uint16, uint32, uint64, float64, string:
		o.text = fmt.Sprint(x)
	default:
		panic(unsupported("Observe of a non-scalar %T", v))
	}
	c.obsRaw = append(c.obsRaw, o)
}

type obsRaw struct {
	label string
	text  string
	name  string
	sort  Sort
}

// ---- fmt helpers ----

func (i *interpreter) hostArg(v value) any {
	switch x := v.(type) {
	case iface:
		if x.t == nil {
			return nil
		}
		if _, isBasic := x.t.Underlying().(*types.Basic); !isBasic || i.hasMethod(x.t, "String") != nil || i.hasMethod(x.t, "Error") != nil {
			if i.hasMethod(x.t, "Error") != nil {
				return i.errString(x)
			}
			if i.hasMethod(x.t, "String") != nil {
				var out any
				func() {
					defer func() {
						if r := recover(); r != nil {
							if _, isEnd := r.(pathEnd); isEnd {
								panic(r)
							}
							out = "<" + x.t.String() + ">"
						}
					}()
					if r, ok := i.callMethod(x, "String"); ok {
						out = r
					}
				}()
				if s, ok := out.(string); ok {
					return s
				}
			}
		}
		return i.hostArg(x.v)
	case symBool, symInt, symFloat:
		return "<sym>"
	case bool, int, int8, int16, int32, int64, uint, uint8, uint16, uint32, uint64, uintptr, float32, float64, string:
		return x
	case *value:
		if x == nil {
			return "<nil>"
		}
		return fmt.Sprintf("&%v", i.hostArg(*x))
	case structure:
		parts := make([]string, len(x))
		for k := range x {
			parts[k] = fmt.Sprint(i.hostArg(x[k]))
		}
		return "{" + strings.Join(parts, " ") + "}"
	case []value:
		parts := make([]any, len(x))
		for k := range x {
			parts[k] = i.hostArg(x[k])
		}
		return parts
	case *omap:
		return fmt.Sprintf("map[%d entries]", x.len())
	}
	return fmt.Sprintf("<%T>", v)
}

func (i *interpreter) hostArgs(args []value) []any {
	out := make([]any, len(args))
	for k, a := range args {
		out[k] = i.hostArg(a)
	}
	return out
}

func (i *interpreter) sprintf(format string, args []value) string {
	return fmt.Sprintf(format, i.hostArgs(args)...)
}

// ---- errors.Is / errors.As over interpreted error values ----

func (i *interpreter) unwrapAll(e iface) []iface {
	m := i.hasMethod(e.t, "Unwrap")
	if m == nil {
		return nil
	}
	sig := m.Type().(*types.Signature)
	if sig.Params().Len() != 0 || sig.Results().Len() != 1 {
		return nil
	}
	r, ok := i.callMethod(e, "Unwrap")
	if !ok {
		return nil
	}
	switch r := r.(type) {
	case iface:
		if r.t == nil {
			return nil
		}
		return []iface{r}
	case []value:
		var out []iface
		for _, x := range r {
			if xi := x.(iface); xi.t != nil {
				out = append(out, xi)
			}
		}
		return out
	}
	return nil
}

func (i *interpreter) errorsIs(err, target iface, depth int) value {
	if depth > 50 {
		panic(unsupported("errors.Is: chain too deep"))
	}
	if err.t == nil {
		return target.t == nil
	}
	if target.t != nil && types.Comparable(target.t) && sameType(err.t, target.t) {
		if eq, ok := equalsV(err.t, err.v, target.v).(bool); ok && eq {
			return true
		}
	}
	if m := i.hasMethod(err.t, "Is"); m != nil {
		sig := m.Type().(*types.Signature)
		if sig.Params().Len() == 1 && sig.Results().Len() == 1 {
			if r, ok := i.callMethod(err, "Is", target); ok {
				if i.ctx.concretizeBool(i.lastPos, r) {
					return true
				}
			}
		}
	}
	for _, w := range i.unwrapAll(err) {
		if i.errorsIs(w, target, depth+1).(bool) {
			return true
		}
	}
	return false
}

func (i *interpreter) errorsAs(err iface, targetType types.Type, target *value, depth int) value {
	if depth > 50 {
		panic(unsupported("errors.As: chain too deep"))
	}
	if err.t == nil {
		return false
	}
	if it, ok := targetType.Underlying().(*types.Interface); ok {
		if types.Implements(err.t, it) {
			*target = err
			return true
		}
	} else if types.Identical(err.t, targetType) {
		store(targetType, target, err.v)
		return true
	}
	if m := i.hasMethod(err.t, "As"); m != nil {
		sig := m.Type().(*types.Signature)
		if sig.Params().Len() == 1 && sig.Results().Len() == 1 {
			arg := iface{t: types.NewPointer(targetType), v: target}
			if r, ok := i.callMethod(err, "As", arg); ok && i.ctx.concretizeBool(i.lastPos, r) {
				return true
			}
		}
	}
	for _, w := range i.unwrapAll(err) {
		if i.errorsAs(w, targetType, target, depth+1).(bool) {
			return true
		}
	}
	return false
}
