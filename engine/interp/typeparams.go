package interp

import "go/types"

// Minimal replacements for golang.org/x/tools/internal/typeparams (internal,
// not importable). Executed code is built with ssa.InstantiateGenerics, so no
// type parameters remain in the types seen here.

func coreType(t types.Type) types.Type {
	if tp, ok := types.Unalias(t).(*types.TypeParam); ok {
		// single-term constraint fall-back
		if iface, ok := tp.Constraint().Underlying().(*types.Interface); ok && iface.NumEmbeddeds() == 1 {
			if u, ok := iface.EmbeddedType(0).(*types.Union); ok && u.Len() == 1 {
				return u.Term(0).Type().Underlying()
			}
			return iface.EmbeddedType(0).Underlying()
		}
	}
	return t.Underlying()
}

func mustDeref(t types.Type) types.Type {
	if p, ok := coreType(t).(*types.Pointer); ok {
		return p.Elem()
	}
	panic("mustDeref: not a pointer: " + t.String())
}
