// Package verifrt is the harness runtime of /verif (see /verif/DESIGN.md §5.1).
//
// It is never part of a normal build: the file is injected by overlay as
// /repo/pkg/verifrt/verifrt.go, only together with harness files that carry the
// `verif` build tag. Under the symbolic engine (symgo) every function below is
// intercepted by name and its body is not executed; compiled natively the same
// functions read their values from a replay file, so that a solver model can be
// run against the real build.
package verifrt

import (
	"encoding/json"
	"fmt"
	"math"
	"os"
	"runtime"
	"sort"
	"strconv"
	"strings"
	"sync"
	"time"

	"k8s.io/apimachinery/pkg/api/resource"
)

type Case struct {
	ID      int            `json:"id"`
	Harness string         `json:"harness"`
	Inputs  map[string]any `json:"inputs"`
}

type Result struct {
	ID        int      `json:"id"`
	Harness   string   `json:"harness"`
	Ran       bool     `json:"ran"`
	Failed    bool     `json:"failed"`
	FailMsg   string   `json:"fail_msg,omitempty"`
	Panicked  bool     `json:"panicked"`
	PanicMsg  string   `json:"panic_msg,omitempty"`
	Assumed   bool     `json:"assume_false"`
	Asserts   int      `json:"asserts"`
	Reach     []string `json:"reach,omitempty"`
	Observes  []string `json:"observes,omitempty"`
	Missing   []string `json:"missing_inputs,omitempty"`
	Findings  []string `json:"findings,omitempty"`
	ExpectPan bool     `json:"expect_panic,omitempty"`
}

type state struct {
	mu     sync.Mutex
	inputs map[string]any
	counts map[string]int
	res    *Result
	reach  map[string]bool
	gid    string // goroutine that runs the harness
}

func goid() string {
	buf := make([]byte, 64)
	n := runtime.Stack(buf, false)
	f := strings.Fields(string(buf[:n]))
	if len(f) >= 2 {
		return f[1]
	}
	return ""
}

var cur *state

type assertFailed struct{ msg string }
type assumeFalse struct{}

func next(label string) (string, any, bool) {
	if cur == nil {
		panic("verifrt: used outside a replay")
	}
	cur.mu.Lock()
	defer cur.mu.Unlock()
	k := cur.counts[label]
	cur.counts[label] = k + 1
	name := fmt.Sprintf("%s#%d", label, k)
	v, ok := cur.inputs[name]
	if !ok {
		cur.res.Missing = append(cur.res.Missing, name)
	}
	return name, v, ok
}

func asInt64(v any) int64 {
	switch x := v.(type) {
	case float64:
		return int64(x)
	case json.Number:
		n, err := x.Int64()
		if err != nil {
			f, _ := x.Float64()
			return int64(f)
		}
		return n
	case string:
		n, _ := strconv.ParseInt(x, 10, 64)
		return n
	case bool:
		if x {
			return 1
		}
	}
	return 0
}

func Bool(label string) bool {
	_, v, _ := next(label)
	b, _ := v.(bool)
	return b
}

func Int(label string) int       { _, v, _ := next(label); return int(asInt64(v)) }
func Int64(label string) int64   { _, v, _ := next(label); return asInt64(v) }
func IntRange(label string, lo, hi int) int {
	_, v, ok := next(label)
	if !ok {
		return lo
	}
	return int(asInt64(v))
}

func Choice(label string, lo, hi int) int {
	_, v, ok := next(label)
	if !ok {
		return lo
	}
	return int(asInt64(v))
}

// Bound returns a size bound that depends on the tier (recorded as an input).
func Bound(label string, quick, thorough int) int {
	_, v, ok := next("bound:" + label)
	if !ok {
		return quick
	}
	return int(asInt64(v))
}

func Float(label string) float64 {
	_, v, _ := next(label)
	switch x := v.(type) {
	case json.Number:
		f, _ := x.Float64()
		return f
	case float64:
		return x
	case string:
		switch x {
		case "NaN":
			return math.NaN()
		case "+Inf":
			return math.Inf(1)
		case "-Inf":
			return math.Inf(-1)
		case "-0":
			return math.Copysign(0, -1)
		}
	case map[string]any:
		if s, ok := x["float64bits"].(string); ok {
			u, _ := strconv.ParseUint(s, 10, 64)
			return math.Float64frombits(u)
		}
	}
	return 0
}

// Atom returns the i-th label-value atom: pairwise distinct strings whose
// numeric interpretation (strconv.Atoi) is free.
func Atom(i int) string {
	okName := fmt.Sprintf("atom%d.ok#0", i)
	if cur == nil {
		panic("verifrt: used outside a replay")
	}
	ok, _ := cur.inputs[okName].(bool)
	val := asInt64(cur.inputs[fmt.Sprintf("atom%d.val#0", i)])
	canon, _ := cur.inputs[fmt.Sprintf("atom%d.canon#0", i)].(bool)
	switch {
	case ok && canon:
		return strconv.FormatInt(val, 10)
	case ok:
		pad := strings.Repeat("0", i+1)
		if val < 0 {
			return "-" + pad + strconv.FormatUint(uint64(-val), 10)
		}
		return pad + strconv.FormatInt(val, 10)
	}
	return fmt.Sprintf("x%d", i)
}

func Time(label string) time.Time {
	_, v, _ := next(label)
	return time.Unix(0, asInt64(v))
}

func Duration(label string, lo, hi time.Duration) time.Duration {
	_, v, ok := next(label)
	if !ok {
		return lo
	}
	return time.Duration(asInt64(v))
}

func DurationString(label string, lo, hi time.Duration) string {
	return Duration(label, lo, hi).String()
}

// DurationStringOf renders a duration the way time.ParseDuration reads it back (exactly).
func DurationStringOf(d time.Duration) string { return d.String() }

func Quantity(label string, lo, hi int64) resource.Quantity {
	_, v, ok := next(label)
	n := lo
	if ok {
		n = asInt64(v)
	}
	return *resource.NewQuantity(n, resource.DecimalSI)
}

func MilliQuantity(label string, lo, hi int64) resource.Quantity {
	_, v, ok := next(label)
	n := lo
	if ok {
		n = asInt64(v)
	}
	return *resource.NewMilliQuantity(n, resource.DecimalSI)
}

func Assume(c bool) {
	if !c {
		panic(assumeFalse{})
	}
}

// Assert records the first failing assertion and stops the goroutine that hit it: by a panic caught by the
// runner on the harness goroutine, by runtime.Goexit on goroutines the code under test started itself.
func Assert(c bool, msg string) {
	st := cur
	st.mu.Lock()
	st.res.Asserts++
	if c {
		st.mu.Unlock()
		return
	}
	if !st.res.Failed {
		st.res.Failed = true
		st.res.FailMsg = msg
	}
	st.mu.Unlock()
	if goid() == st.gid {
		panic(assertFailed{msg})
	}
	runtime.Goexit()
}

func Reach(label string) { cur.reach[label] = true }

func Observe(label string, v any) {
	cur.res.Observes = append(cur.res.Observes, label+"="+fmt.Sprint(v))
}

func KnownFinding(id string, c bool) {
	if c {
		cur.res.Findings = append(cur.res.Findings, id)
	}
}

func ExpectPanic() { cur.res.ExpectPan = true }

func Freeze(x any) {}

// Thaw exempts the object x points to (its own fields only) from an earlier Freeze.
func Thaw(x any) {}

func Symbolic() bool { return false }

func Ite[T any](c bool, a, b T) T {
	if c {
		return a
	}
	return b
}

// T is the part of *testing.T the replay runner needs.
type T interface {
	Errorf(format string, args ...any)
	Logf(format string, args ...any)
}

// RunReplay runs the cases listed in $VERIF_REPLAY_CASES that name one of the
// given harnesses and appends one Result per case to $VERIF_REPLAY_OUT.<pid>.
func RunReplay(t T, harnesses map[string]func()) {
	path := os.Getenv("VERIF_REPLAY_CASES")
	if path == "" {
		t.Logf("VERIF_REPLAY_CASES not set; nothing to replay")
		return
	}
	data, err := os.ReadFile(path)
	if err != nil {
		t.Errorf("read cases: %v", err)
		return
	}
	dec := json.NewDecoder(strings.NewReader(string(data)))
	dec.UseNumber()
	var cases []Case
	if err := dec.Decode(&cases); err != nil {
		t.Errorf("decode cases: %v", err)
		return
	}
	var results []Result
	for _, c := range cases {
		h, ok := harnesses[c.Harness]
		if !ok {
			continue
		}
		res := runCase(c, h)
		// a model that fixes the outcome of math/rand cannot be forced natively: retry until the same draw occurs
		usesRand := false
		for name := range c.Inputs {
			if strings.HasPrefix(name, "rand#") || strings.HasPrefix(name, "randf#") {
				usesRand = true
			}
		}
		for try := 0; usesRand && try < 300 && !res.Failed && !res.Panicked; try++ {
			res = runCase(c, h)
		}
		results = append(results, res)
	}
	out := os.Getenv("VERIF_REPLAY_OUT")
	if out == "" {
		out = path + ".out"
	}
	b, _ := json.MarshalIndent(results, "", " ")
	if err := os.WriteFile(fmt.Sprintf("%s.%d", out, os.Getpid()), b, 0o644); err != nil {
		t.Errorf("write results: %v", err)
	}
}

func runCase(c Case, h func()) (res Result) {
	res = Result{ID: c.ID, Harness: c.Harness, Ran: true}
	cur = &state{inputs: c.Inputs, counts: map[string]int{}, res: &res, reach: map[string]bool{}, gid: goid()}
	defer func() {
		for r := range cur.reach {
			res.Reach = append(res.Reach, r)
		}
		sort.Strings(res.Reach)
		cur = nil
		if r := recover(); r != nil {
			switch p := r.(type) {
			case assertFailed:
				res.Failed = true
				res.FailMsg = p.msg
			case assumeFalse:
				res.Assumed = true
			default:
				res.Panicked = true
				buf := make([]byte, 4096)
				n := runtime.Stack(buf, false)
				res.PanicMsg = fmt.Sprintf("%v\n%s", r, buf[:n])
			}
		}
	}()
	h()
	return
}
