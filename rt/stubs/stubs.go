// Package stubs holds the environment model of the /verif harnesses (DESIGN §4,
// Appendix D): an API client, a cloud provider, a clock and an event recorder
// whose every call may fail or lag as chosen through verifrt.Choice, with ghost
// state recording what really happened. The same code runs under the symbolic
// engine (choices become forks) and natively during replay (choices are read
// from the recorded model). Injected by overlay only; never part of a normal build.
package stubs

import (
	"context"
	"fmt"
	"time"

	"github.com/awslabs/operatorpkg/status"
	appsv1 "k8s.io/api/apps/v1"
	corev1 "k8s.io/api/core/v1"
	policyv1 "k8s.io/api/policy/v1"
	storagev1 "k8s.io/api/storage/v1"
	apierrors "k8s.io/apimachinery/pkg/api/errors"
	metav1 "k8s.io/apimachinery/pkg/apis/meta/v1"
	"k8s.io/apimachinery/pkg/labels"
	"k8s.io/apimachinery/pkg/runtime/schema"
	"k8s.io/apimachinery/pkg/types"
	"k8s.io/utils/clock"
	"sigs.k8s.io/controller-runtime/pkg/client"

	v1 "sigs.k8s.io/karpenter/pkg/apis/v1"
	"sigs.k8s.io/karpenter/pkg/cloudprovider"
	"sigs.k8s.io/karpenter/pkg/events"
	testv1alpha1 "sigs.k8s.io/karpenter/pkg/test/v1alpha1"
	"sigs.k8s.io/karpenter/pkg/verifrt"
)

// ---- clock ----

// Clock returns arbitrary non-decreasing instants (Frozen: always the same one).
type Clock struct {
	clock.Clock
	Frozen bool
	last   time.Time
	set    bool
}

func (c *Clock) Now() time.Time {
	if c.Frozen && c.set {
		return c.last
	}
	t := verifrt.Time("clock.now")
	if c.set {
		verifrt.Assume(!t.Before(c.last))
	}
	c.last, c.set = t, true
	return t
}
func (c *Clock) Since(t time.Time) time.Duration { return c.Now().Sub(t) }
func (c *Clock) Until(t time.Time) time.Duration { return t.Sub(c.Now()) }
func (c *Clock) Sleep(time.Duration)             {}
func (c *Clock) After(time.Duration) <-chan time.Time {
	ch := make(chan time.Time, 1)
	ch <- c.Now()
	return ch
}

// NewTimer: a timer that has already fired (waiting is not modelled; the code after the wait is).
func (c *Clock) NewTimer(time.Duration) clock.Timer {
	t := &Timer{ch: make(chan time.Time, 1)}
	t.ch <- c.Now()
	return t
}

type Timer struct{ ch chan time.Time }

func (t *Timer) C() <-chan time.Time { return t.ch }
func (t *Timer) Stop() bool          { return true }
func (t *Timer) Reset(time.Duration) bool {
	select {
	case t.ch <- time.Time{}:
	default:
	}
	return true
}

// Set pins the clock (Frozen clocks return this instant from now on).
func (c *Clock) Set(t time.Time) { c.last, c.set = t, true }

// ---- events ----

type Recorder struct{ Published int }

func (r *Recorder) Publish(evts ...events.Event) { r.Published += len(evts) }

// ---- API client ----

// Call is one entry of the ghost log.
type Call struct {
	Verb, Kind, Name string
	OK               bool
}

// Client is an in-memory API server model. Faults[verb] (or Faults[verb+":"+kind])
// enables a nondeterministic failure of that call; reads may additionally lag
// (NotFound for an existing object) when Lag[kind] is set.
type Client struct {
	client.Client
	Clock     *Clock
	Nodes     []*corev1.Node
	Claims    []*v1.NodeClaim
	Pools     []*v1.NodePool
	Pods      []*corev1.Pod
	PDBs      []*policyv1.PodDisruptionBudget
	VAs       []*storagev1.VolumeAttachment
	DaemonSets []*appsv1.DaemonSet
	Faults    map[string]bool
	FaultMax  int // when > 0, the highest fault code any call may draw (1 = only a generic error)
	Lag       map[string]bool
	Log       []Call
	OnDelete  func(kind, name string) // called when a Delete is about to take effect
	OnWrite   func(verb string, obj client.Object) // called when an Update/Patch is about to take effect
	Evictions []string // pods evicted through the eviction subresource
	PodDeletes []DeleteRecord
}

const (
	FaultNone = iota
	FaultOther
	FaultNotFound
	FaultConflict
)

func kindOf(obj any) string {
	switch obj.(type) {
	case *corev1.Node, *corev1.NodeList:
		return "Node"
	case *v1.NodeClaim, *v1.NodeClaimList:
		return "NodeClaim"
	case *v1.NodePool, *v1.NodePoolList:
		return "NodePool"
	case *corev1.Pod, *corev1.PodList:
		return "Pod"
	case *policyv1.PodDisruptionBudget, *policyv1.PodDisruptionBudgetList:
		return "PDB"
	case *storagev1.VolumeAttachment, *storagev1.VolumeAttachmentList:
		return "VolumeAttachment"
	// kinds the model knows but never stores: reads report them absent
	case *storagev1.CSINode, *storagev1.CSINodeList:
		return "CSINode"
	case *corev1.PersistentVolumeClaim, *corev1.PersistentVolumeClaimList:
		return "PersistentVolumeClaim"
	case *corev1.PersistentVolume, *corev1.PersistentVolumeList:
		return "PersistentVolume"
	case *storagev1.StorageClass, *storagev1.StorageClassList:
		return "StorageClass"
	case *appsv1.DaemonSet, *appsv1.DaemonSetList:
		return "DaemonSet"
	case *corev1.Namespace, *corev1.NamespaceList:
		return "Namespace"
	}
	panic(fmt.Sprintf("stubs.Client: unsupported object type %T", obj))
}

func gr(kind string) schema.GroupResource { return schema.GroupResource{Resource: kind} }

// fault draws the outcome of a call. max is the highest fault code the call can produce.
func (c *Client) fault(verb, kind, name string, max int) error {
	f := FaultNone
	if c.Faults[verb] || c.Faults[verb+":"+kind] {
		if c.FaultMax > 0 && max > c.FaultMax {
			max = c.FaultMax
		}
		f = verifrt.Choice("fault."+verb+"."+kind, FaultNone, max)
	}
	c.Log = append(c.Log, Call{verb, kind, name, f == FaultNone})
	switch f {
	case FaultOther:
		return fmt.Errorf("injected %s %s failure", verb, kind)
	case FaultNotFound:
		return apierrors.NewNotFound(gr(kind), name)
	case FaultConflict:
		return apierrors.NewConflict(gr(kind), name, fmt.Errorf("injected conflict"))
	}
	return nil
}

// Calls counts successful logged calls of a verb on a kind.
func (c *Client) Calls(verb, kind string) int {
	n := 0
	for _, l := range c.Log {
		if l.Verb == verb && l.Kind == kind && l.OK {
			n++
		}
	}
	return n
}

func (c *Client) Get(ctx context.Context, key client.ObjectKey, obj client.Object, opts ...client.GetOption) error {
	kind := kindOf(obj)
	if err := c.fault("get", kind, key.Name, FaultOther); err != nil {
		return err
	}
	if (c.Lag[kind] || c.Lag[kind+"/"+key.Name]) && verifrt.Choice("lag."+kind, 0, 1) == 1 {
		return apierrors.NewNotFound(gr(kind), key.Name)
	}
	switch o := obj.(type) {
	case *corev1.Node:
		for _, x := range c.Nodes {
			if x.Name == key.Name {
				x.DeepCopyInto(o)
				return nil
			}
		}
	case *v1.NodeClaim:
		for _, x := range c.Claims {
			if x.Name == key.Name {
				x.DeepCopyInto(o)
				return nil
			}
		}
	case *v1.NodePool:
		for _, x := range c.Pools {
			if x.Name == key.Name {
				x.DeepCopyInto(o)
				return nil
			}
		}
	case *corev1.Pod:
		for _, x := range c.Pods {
			if x.Name == key.Name && x.Namespace == key.Namespace {
				x.DeepCopyInto(o)
				return nil
			}
		}
	}
	return apierrors.NewNotFound(gr(kind), key.Name)
}

type listFilter struct {
	fields    map[string]string
	labels    map[string]string
	namespace string
	selector  labels.Selector
}

func filterOf(opts []client.ListOption) listFilter {
	f := listFilter{}
	for _, o := range opts {
		switch x := o.(type) {
		case client.MatchingFields:
			f.fields = x
		case client.MatchingLabels:
			f.labels = x
		case client.InNamespace:
			f.namespace = string(x)
		case client.UnsafeDisableDeepCopyOption:
		case *client.ListOptions:
			f.namespace = x.Namespace
			f.selector = x.LabelSelector
			if x.FieldSelector != nil {
				panic("stubs.Client: field selectors in ListOptions are not modelled")
			}
		default:
			panic(fmt.Sprintf("stubs.Client: unsupported list option %T", o))
		}
	}
	return f
}

func (f listFilter) labelsMatch(l map[string]string) bool {
	if f.selector != nil && !f.selector.Matches(labels.Set(l)) {
		return false
	}
	for k, v := range f.labels {
		if l[k] != v {
			return false
		}
	}
	return true
}

func (c *Client) List(ctx context.Context, list client.ObjectList, opts ...client.ListOption) error {
	kind := kindOf(list)
	if err := c.fault("list", kind, "", FaultOther); err != nil {
		return err
	}
	f := filterOf(opts)
	switch l := list.(type) {
	case *corev1.NodeList:
		l.Items = nil
		for _, x := range c.Nodes {
			if v, ok := f.fields["spec.providerID"]; ok && x.Spec.ProviderID != v {
				continue
			}
			if f.labelsMatch(x.Labels) {
				l.Items = append(l.Items, *x.DeepCopy())
			}
		}
	case *v1.NodeClaimList:
		l.Items = nil
		for _, x := range c.Claims {
			if v, ok := f.fields["status.providerID"]; ok && x.Status.ProviderID != v {
				continue
			}
			if f.labelsMatch(x.Labels) {
				l.Items = append(l.Items, *x.DeepCopy())
			}
		}
	case *v1.NodePoolList:
		l.Items = nil
		for _, x := range c.Pools {
			if f.labelsMatch(x.Labels) {
				l.Items = append(l.Items, *x.DeepCopy())
			}
		}
	case *corev1.PodList:
		l.Items = nil
		for _, x := range c.Pods {
			if v, ok := f.fields["spec.nodeName"]; ok && x.Spec.NodeName != v {
				continue
			}
			if f.namespace != "" && x.Namespace != f.namespace {
				continue
			}
			if f.labelsMatch(x.Labels) {
				l.Items = append(l.Items, *x.DeepCopy())
			}
		}
	case *policyv1.PodDisruptionBudgetList:
		l.Items = nil
		for _, x := range c.PDBs {
			if f.namespace != "" && x.Namespace != f.namespace {
				continue
			}
			l.Items = append(l.Items, *x.DeepCopy())
		}
	case *storagev1.VolumeAttachmentList:
		l.Items = nil
		for _, x := range c.VAs {
			if v, ok := f.fields["spec.nodeName"]; ok && x.Spec.NodeName != v {
				continue
			}
			l.Items = append(l.Items, *x.DeepCopy())
		}
	case *appsv1.DaemonSetList:
		l.Items = nil
		for _, x := range c.DaemonSets {
			l.Items = append(l.Items, *x.DeepCopy())
		}
	}
	return nil
}

func (c *Client) now() metav1.Time {
	if c.Clock != nil {
		return metav1.Time{Time: c.Clock.Now()}
	}
	return metav1.Time{Time: time.Unix(1700000000, 0)}
}

func (c *Client) Create(ctx context.Context, obj client.Object, opts ...client.CreateOption) error {
	kind := kindOf(obj)
	if err := c.fault("create", kind, obj.GetName(), FaultOther); err != nil {
		return err
	}
	if obj.GetName() == "" {
		obj.SetName(fmt.Sprintf("%s%d", obj.GetGenerateName(), len(c.Log)))
	}
	if obj.GetUID() == "" {
		obj.SetUID(types.UID("uid-" + obj.GetName()))
	}
	switch o := obj.(type) {
	case *corev1.Node:
		c.Nodes = append(c.Nodes, o.DeepCopy())
	case *v1.NodeClaim:
		c.Claims = append(c.Claims, o.DeepCopy())
	case *corev1.Pod:
		c.Pods = append(c.Pods, o.DeepCopy())
	default:
		panic(fmt.Sprintf("stubs.Client: Create of %T", obj))
	}
	return nil
}

// write replaces the stored copy (Update, Patch and their status variants all keep the caller's whole object).
func (c *Client) write(verb string, obj client.Object) error {
	kind := kindOf(obj)
	if err := c.fault(verb, kind, obj.GetName(), FaultConflict); err != nil {
		return err
	}
	if c.OnWrite != nil {
		c.OnWrite(verb, obj)
	}
	switch o := obj.(type) {
	case *corev1.Node:
		for i, x := range c.Nodes {
			if x.Name == o.Name {
				c.Nodes[i] = o.DeepCopy()
				c.collect(kind, o.Name)
				return nil
			}
		}
	case *v1.NodeClaim:
		for i, x := range c.Claims {
			if x.Name == o.Name {
				c.Claims[i] = o.DeepCopy()
				c.collect(kind, o.Name)
				return nil
			}
		}
	case *v1.NodePool:
		for i, x := range c.Pools {
			if x.Name == o.Name {
				c.Pools[i] = o.DeepCopy()
				return nil
			}
		}
	case *corev1.Pod:
		for i, x := range c.Pods {
			if x.Name == o.Name && x.Namespace == o.Namespace {
				c.Pods[i] = o.DeepCopy()
				return nil
			}
		}
	}
	return apierrors.NewNotFound(gr(kind), obj.GetName())
}

// collect removes an object that is being deleted once its last finalizer is gone (the only apiserver semantics modelled).
func (c *Client) collect(kind, name string) {
	switch kind {
	case "Node":
		for i, x := range c.Nodes {
			if x.Name == name && !x.DeletionTimestamp.IsZero() && len(x.Finalizers) == 0 {
				c.Nodes = append(c.Nodes[:i:i], c.Nodes[i+1:]...)
				return
			}
		}
	case "NodeClaim":
		for i, x := range c.Claims {
			if x.Name == name && !x.DeletionTimestamp.IsZero() && len(x.Finalizers) == 0 {
				c.Claims = append(c.Claims[:i:i], c.Claims[i+1:]...)
				return
			}
		}
	}
}

func (c *Client) Update(ctx context.Context, obj client.Object, opts ...client.UpdateOption) error {
	return c.write("update", obj)
}

func (c *Client) Patch(ctx context.Context, obj client.Object, patch client.Patch, opts ...client.PatchOption) error {
	return c.write("patch", obj)
}

// DeleteOpts of the most recent successful Delete (grace period, preconditions).
type DeleteRecord struct {
	Kind, Name         string
	GracePeriodSeconds *int64
}

var _ = DeleteRecord{}

func (c *Client) Delete(ctx context.Context, obj client.Object, opts ...client.DeleteOption) error {
	kind := kindOf(obj)
	if err := c.fault("delete", kind, obj.GetName(), FaultNotFound); err != nil {
		return err
	}
	do := &client.DeleteOptions{}
	for _, o := range opts {
		o.ApplyToDelete(do)
	}
	if c.OnDelete != nil {
		c.OnDelete(kind, obj.GetName())
	}
	now := c.now()
	switch o := obj.(type) {
	case *corev1.Node:
		for i, x := range c.Nodes {
			if x.Name == o.Name {
				if len(x.Finalizers) > 0 {
					if x.DeletionTimestamp.IsZero() {
						x.DeletionTimestamp = &now
					}
				} else {
					c.Nodes = append(c.Nodes[:i:i], c.Nodes[i+1:]...)
				}
				return nil
			}
		}
	case *v1.NodeClaim:
		for i, x := range c.Claims {
			if x.Name == o.Name {
				if len(x.Finalizers) > 0 {
					if x.DeletionTimestamp.IsZero() {
						x.DeletionTimestamp = &now
					}
				} else {
					c.Claims = append(c.Claims[:i:i], c.Claims[i+1:]...)
				}
				return nil
			}
		}
	case *corev1.Pod:
		for i, x := range c.Pods {
			if x.Name == o.Name && x.Namespace == o.Namespace {
				c.PodDeletes = append(c.PodDeletes, DeleteRecord{kind, o.Name, do.GracePeriodSeconds})
				c.Pods = append(c.Pods[:i:i], c.Pods[i+1:]...)
				return nil
			}
		}
	}
	return apierrors.NewNotFound(gr(kind), obj.GetName())
}

type statusWriter struct {
	client.SubResourceWriter
	c *Client
}

func (s statusWriter) Update(ctx context.Context, obj client.Object, opts ...client.SubResourceUpdateOption) error {
	return s.c.write("status-update", obj)
}

func (s statusWriter) Patch(ctx context.Context, obj client.Object, patch client.Patch, opts ...client.SubResourcePatchOption) error {
	return s.c.write("status-patch", obj)
}

func (c *Client) Status() client.SubResourceWriter { return statusWriter{c: c} }

type evictionClient struct {
	client.SubResourceClient
	c *Client
}

// Eviction outcomes: ok, 404 (pod gone), 429 (PDB blocks), 500 (misconfigured PDBs), other.
func (e evictionClient) Create(ctx context.Context, obj client.Object, sub client.Object, opts ...client.SubResourceCreateOption) error {
	name := obj.GetName()
	out := 0
	if e.c.Faults["evict"] {
		out = verifrt.Choice("fault.evict", 0, 4)
	}
	e.c.Log = append(e.c.Log, Call{"evict", "Pod", name, out == 0})
	switch out {
	case 1:
		return apierrors.NewNotFound(gr("Pod"), name)
	case 2:
		return apierrors.NewTooManyRequests("pdb blocks eviction", 1)
	case 3:
		return apierrors.NewInternalError(fmt.Errorf("multiple pdbs"))
	case 4:
		return fmt.Errorf("injected eviction failure")
	}
	e.c.Evictions = append(e.c.Evictions, name)
	return nil
}

func (c *Client) SubResource(name string) client.SubResourceClient {
	if name != "eviction" {
		panic("stubs.Client: unsupported subresource " + name)
	}
	return evictionClient{c: c}
}

// ---- cloud provider ----

// Provider models the cloud: ghost set of existing instances, Create count per NodeClaim.
type Provider struct {
	cloudprovider.CloudProvider
	Faults        map[string]bool
	Instances     map[string]bool // providerID -> exists
	Terminating   map[string]bool // Delete accepted, not yet gone
	Creates       map[string]int  // NodeClaim name -> successful Create calls
	DeleteCalls   int
	CreateErrors  []int // when set, the error outcomes Create may draw (default: all three)
	InstanceTypes []*cloudprovider.InstanceType
	Policies      []cloudprovider.RepairPolicy
	NodeClasses   []status.Object
	Drifted       cloudprovider.DriftReason
	Log           []Call
	OnCreate      func(nc *v1.NodeClaim) // called when a Create is about to succeed
	LastCreateOutcome int
	next          int
}

func NewProvider() *Provider {
	return &Provider{Faults: map[string]bool{}, Instances: map[string]bool{}, Terminating: map[string]bool{}, Creates: map[string]int{}}
}

func (p *Provider) Name() string { return "verif" }

func (p *Provider) GetSupportedNodeClasses() []status.Object { return p.NodeClasses }

const (
	CreateOK = iota
	CreateInsufficientCapacity
	CreateNodeClassNotReady
	CreateOther
	// the same errors the way real providers return them: wrapped in a CreateError that carries a condition reason
	CreateWrappedInsufficientCapacity
	CreateWrappedNodeClassNotReady
	CreateWrappedOther
)

func (p *Provider) Create(ctx context.Context, nc *v1.NodeClaim) (*v1.NodeClaim, error) {
	out := CreateOK
	if p.Faults["create"] {
		if len(p.CreateErrors) > 0 {
			if k := verifrt.Choice("provider.create", 0, len(p.CreateErrors)); k > 0 {
				out = p.CreateErrors[k-1]
			}
		} else {
			out = verifrt.Choice("provider.create", CreateOK, CreateWrappedOther)
		}
	}
	p.Log = append(p.Log, Call{"create", "Instance", nc.Name, out == CreateOK})
	p.LastCreateOutcome = out
	switch out {
	case CreateInsufficientCapacity:
		return nil, cloudprovider.NewInsufficientCapacityError(fmt.Errorf("no capacity"))
	case CreateNodeClassNotReady:
		return nil, cloudprovider.NewNodeClassNotReadyError(fmt.Errorf("nodeclass not ready"))
	case CreateOther:
		return nil, fmt.Errorf("injected provider create failure")
	case CreateWrappedInsufficientCapacity:
		return nil, cloudprovider.NewCreateError(fmt.Errorf("creating instance, %w", cloudprovider.NewInsufficientCapacityError(fmt.Errorf("no capacity"))), "InsufficientCapacity", "no capacity")
	case CreateWrappedNodeClassNotReady:
		return nil, cloudprovider.NewCreateError(fmt.Errorf("creating instance, %w", cloudprovider.NewNodeClassNotReadyError(fmt.Errorf("nodeclass not ready"))), "NodeClassNotReady", "nodeclass not ready")
	case CreateWrappedOther:
		return nil, cloudprovider.NewCreateError(fmt.Errorf("injected provider create failure"), "LaunchFailed", "injected")
	}
	if p.OnCreate != nil {
		p.OnCreate(nc)
	}
	p.next++
	id := fmt.Sprintf("verif://instance-%d", p.next)
	p.Instances[id] = true
	p.Creates[nc.Name]++
	created := nc.DeepCopy()
	created.Status.ProviderID = id
	created.Status.ImageID = "image"
	created.Labels = map[string]string{corev1.LabelInstanceTypeStable: "it-1"}
	return created, nil
}

// Delete: ok = termination accepted (the instance is marked terminating and a later call may report it gone),
// NotFound = the instance no longer exists.
func (p *Provider) Delete(ctx context.Context, nc *v1.NodeClaim) error {
	p.DeleteCalls++
	id := nc.Status.ProviderID
	if p.Faults["delete"] && verifrt.Choice("provider.delete.fail", 0, 1) == 1 {
		p.Log = append(p.Log, Call{"delete", "Instance", nc.Name, false})
		return fmt.Errorf("injected provider delete failure")
	}
	p.Log = append(p.Log, Call{"delete", "Instance", nc.Name, true})
	if !p.Instances[id] {
		return cloudprovider.NewNodeClaimNotFoundError(fmt.Errorf("instance not found"))
	}
	if p.Terminating[id] && verifrt.Choice("provider.delete.gone", 0, 1) == 1 {
		delete(p.Instances, id)
		delete(p.Terminating, id)
		return cloudprovider.NewNodeClaimNotFoundError(fmt.Errorf("instance terminated"))
	}
	p.Terminating[id] = true
	return nil
}

func (p *Provider) Get(ctx context.Context, providerID string) (*v1.NodeClaim, error) {
	if p.Faults["get"] && verifrt.Choice("provider.get.fail", 0, 1) == 1 {
		return nil, fmt.Errorf("injected provider get failure")
	}
	if !p.Instances[providerID] {
		return nil, cloudprovider.NewNodeClaimNotFoundError(fmt.Errorf("instance not found"))
	}
	nc := &v1.NodeClaim{}
	nc.Status.ProviderID = providerID
	return nc, nil
}

func (p *Provider) List(ctx context.Context) ([]*v1.NodeClaim, error) {
	if p.Faults["list"] && verifrt.Choice("provider.list.fail", 0, 1) == 1 {
		return nil, fmt.Errorf("injected provider list failure")
	}
	var out []*v1.NodeClaim
	for id, ok := range p.Instances {
		if ok {
			nc := &v1.NodeClaim{}
			nc.Status.ProviderID = id
			out = append(out, nc)
		}
	}
	return out, nil
}

func (p *Provider) GetInstanceTypes(ctx context.Context, np *v1.NodePool) ([]*cloudprovider.InstanceType, error) {
	return p.InstanceTypes, nil
}

func (p *Provider) IsDrifted(ctx context.Context, nc *v1.NodeClaim) (cloudprovider.DriftReason, error) {
	return p.Drifted, nil
}

func (p *Provider) RepairPolicies() []cloudprovider.RepairPolicy { return p.Policies }

// ---- object builders ----

const (
	NodeClassGroup = "karpenter.test.sh"
	NodeClassKind  = "TestNodeClass"
)

// ManagedProvider returns a provider that manages the NodeClaims built by NodeClaim().
func ManagedProvider() *Provider {
	p := NewProvider()
	p.NodeClasses = []status.Object{&testv1alpha1.TestNodeClass{}}
	return p
}

func NodeClaim(name string) *v1.NodeClaim {
	nc := &v1.NodeClaim{}
	nc.Name = name
	nc.UID = types.UID("uid-" + name)
	nc.Labels = map[string]string{v1.NodePoolLabelKey: "pool-1"}
	nc.Spec.NodeClassRef = &v1.NodeClassReference{Group: NodeClassGroup, Kind: NodeClassKind, Name: "default"}
	return nc
}

func SetCondition(nc *v1.NodeClaim, typ string, st metav1.ConditionStatus, since time.Time) {
	for i := range nc.Status.Conditions {
		if nc.Status.Conditions[i].Type == typ {
			nc.Status.Conditions[i].Status = st
			nc.Status.Conditions[i].LastTransitionTime = metav1.Time{Time: since}
			return
		}
	}
	nc.Status.Conditions = append(nc.Status.Conditions, status.Condition{Type: typ, Status: st, Reason: typ, LastTransitionTime: metav1.Time{Time: since}})
}

func Node(name, providerID string, ready corev1.ConditionStatus) *corev1.Node {
	n := &corev1.Node{}
	n.Name = name
	n.UID = types.UID("uid-" + name)
	n.Spec.ProviderID = providerID
	n.Labels = map[string]string{v1.NodePoolLabelKey: "pool-1"}
	n.Status.Conditions = []corev1.NodeCondition{{Type: corev1.NodeReady, Status: ready}}
	return n
}

// LastOK reports whether the most recent logged call of verb on kind succeeded (found=false: no such call).
func (c *Client) LastOK(verb, kind string) (ok, found bool) {
	for i := len(c.Log) - 1; i >= 0; i-- {
		if c.Log[i].Verb == verb && c.Log[i].Kind == kind {
			return c.Log[i].OK, true
		}
	}
	return false, false
}

// Peek returns the latest reading without advancing the clock.
func (c *Clock) Peek() (time.Time, bool) { return c.last, c.set }

// HasFinalizer reports whether obj carries the finalizer.
func HasFinalizer(obj client.Object, finalizer string) bool {
	for _, f := range obj.GetFinalizers() {
		if f == finalizer {
			return true
		}
	}
	return false
}

// StoredNode / StoredClaim return the API server's current copy (nil when gone).
func (c *Client) StoredNode(name string) *corev1.Node {
	for _, x := range c.Nodes {
		if x.Name == name {
			return x
		}
	}
	return nil
}

func (c *Client) StoredClaim(name string) *v1.NodeClaim {
	for _, x := range c.Claims {
		if x.Name == name {
			return x
		}
	}
	return nil
}
