#!/bin/bash
# usage: process_seed.sh <src SEED dir> <seed name, e.g. C10b> <property id>  — copy, confirm in a scratch worktree, run the check against it
SRC="$1"; NAME="$2"; ID="$3"
mkdir -p /verif/seeded/$NAME && cp $SRC/* /verif/seeded/$NAME/
echo "== $NAME: $(grep '^diff --git' /verif/seeded/$NAME/patch.diff | awk '{print $3}' | tr '\n' ' ')"
timeout 2400 python3 /verif/tools/verify_seed.py /verif/seeded/$NAME 2>&1 | tail -1 | cut -c1-260
timeout 1200 /verif/tools/try_seed.sh /verif/seeded/$NAME $ID 2>&1 | grep "VIOLATION\|kind=\|exit=\|INCONCL" | cut -c1-260
