#!/bin/bash
# usage: try_seed.sh <seed dir> <property id> [check args]   — applies the seeded patch to /repo, runs the check, undoes the patch
SEED="$1"; ID="$2"; shift 2
if [ -n "$(git -C /repo status --porcelain)" ]; then echo "refusing: /repo has uncommitted changes"; exit 3; fi
git -C /repo apply "$SEED/patch.diff" || { echo "patch does not apply"; exit 3; }
/verif/bin/check "$ID" -no-evidence "$@"; RC=$?
git -C /repo checkout -- . 
echo "try_seed: exit=$RC"
exit $RC
