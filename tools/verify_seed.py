#!/usr/bin/env python3
"""Confirm a seeded change independently in a scratch worktree (outside /repo and /verif):
   builds; demo fails with the patch and passes without; the 45 stable baseline tests still pass.
   usage: verify_seed.py <seed dir> [--no-baseline]"""
import json, os, re, subprocess, sys, tempfile, shutil

ENV = dict(os.environ, PATH="/opt/veriftools/go1.26.8/bin:" + os.environ["PATH"], GOFLAGS="-mod=mod", GOPROXY="off", GOSUMDB="off", GOTOOLCHAIN="local")

def sh(cmd, cwd, timeout=3000):
    p = subprocess.run(cmd, cwd=cwd, env=ENV, shell=True, capture_output=True, text=True, timeout=timeout)
    return p.returncode, p.stdout + p.stderr

def main():
    seed = os.path.abspath(sys.argv[1])
    do_base = "--no-baseline" not in sys.argv
    demo = open(os.path.join(seed, "demo_test.go")).read()
    place = re.search(r"// place at:\s*(\S+)", demo).group(1)
    run = re.search(r"// run:\s*(.+)", demo).group(1).strip()
    wt = tempfile.mkdtemp(prefix="seedwt-", dir="/tmp")
    os.rmdir(wt)
    res = {"seed": seed}
    try:
        rc, out = sh(f"git -C /repo worktree add -q --detach {wt} HEAD", "/")
        assert rc == 0, out
        shutil.copy(os.path.join(seed, "demo_test.go"), os.path.join(wt, place))
        rc, out = sh(run, wt)
        res["passes_without_patch"] = rc == 0
        res["clean_out"] = out[-600:]
        rc, out = sh(f"git apply {seed}/patch.diff", wt)
        res["applies"] = rc == 0
        if rc != 0:
            res["apply_out"] = out[-600:]
        rc, out = sh("go build ./...", wt)
        res["builds"] = rc == 0
        rc, out = sh(run, wt)
        res["fails_with_patch"] = rc != 0
        res["patched_out"] = out[-1500:]
        if do_base:
            os.remove(os.path.join(wt, place))
            # the 45 stable baseline tests live in these packages only (same command, restricted to them)
            stable_pkgs = sorted({t.split("::")[0] for t in json.load(open("/root/.vp/BASELINE.json"))["stable_pass"]})
            rc, out = sh("go test -json -vet=off -count=1 -timeout 25m " + " ".join(stable_pkgs) + " 2>/dev/null", wt)
            passed = set()
            for line in out.splitlines():
                try:
                    e = json.loads(line)
                except Exception:
                    continue
                if e.get("Action") == "pass" and e.get("Test"):
                    passed.add(e["Package"] + "::" + e["Test"])
            stable = json.load(open("/root/.vp/BASELINE.json"))["stable_pass"]
            missing = [t for t in stable if t not in passed]
            res["baseline_missing"] = missing
            res["existing_tests_unchanged"] = not missing
    finally:
        sh(f"git -C /repo worktree remove --force {wt}", "/")
        sh("git -C /repo worktree prune", "/")
    res["ok"] = all(res.get(k) for k in ["passes_without_patch", "applies", "builds", "fails_with_patch"]) and (not do_base or res.get("existing_tests_unchanged"))
    json.dump(res, open(os.path.join(seed, "verify.json"), "w"), indent=1)
    print(os.path.basename(seed), "OK" if res["ok"] else "NOT-OK", {k: v for k, v in res.items() if k in ("passes_without_patch", "applies", "builds", "fails_with_patch", "existing_tests_unchanged", "baseline_missing")})

main()
