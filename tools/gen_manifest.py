#!/usr/bin/env python3
"""Generates /verif/MANIFEST.json from the table below (one entry per claimed property)."""
import json, os

TRUST = ("Trusted base: go/ssa (x/tools v0.50.0), the forked ssa/interp core and the intrinsic/stub catalogue of DESIGN Appendix B "
         "(every run replays solver models of explored paths against the real build and reports a disagreement as INCONCLUSIVE), z3 4.8.12. "
         "Bounds are those printed in the evidence file; anything outside them is not claimed. ")

CHECKS = {
 "C15": dict(
  technique="bounded symbolic execution (go/ssa -> SMT, z3) of the chain hash.Controller.Reconcile -> NewNodeClaimTemplate -> NewNodeClaim/CanAdd/Add/FinalizeScheduling/ToNodeClaim -> provider launch choice -> PopulateNodeClaimDetails -> nodeclaim/disruption.Controller.Reconcile (Drift), with label values as atoms of solver-chosen numeric interpretation and math/rand as an arbitrary value",
  text="Drift half only. No self-drift: for every NodePool with 0..2 expressions of any operator on a custom key, zone / capacity-type / architecture constraints, every interleaving of a drift-relevant template edit with hash-controller reconciles before NodeClaim creation and after launch, every permitted launch choice (instance type x available compatible offering) and NodeClaim age (before/after the instance-type check starts), the NodeClaim is not reported Drifted once the hash controller has seen the latest template. Drifted-when: for arbitrary hash/version annotations (absent or one of two values on both objects), requirements and labels, a launched NodeClaim is Drifted exactly when hash differs under equal versions, or its labels fail the NodePool's requirements under Kubernetes selector semantics, or the provider reports drift, with the reason of the first cause; a NodeClaim that is not launched is never Drifted. Known findings C15-F1 (via C13-F3) and C15-F2 (via C12-F1/F2) are reported.",
  ref="DESIGN.md §7 C15",
  note="NOT decided by this check: the hash half of the property (which template fields enter NodePool.Hash, its insensitivity to list/map order): mitchellh/hashstructure walks the value by reflection and hashes with FNV; the engine replaces it by a deterministic model (equal templates hash equal, templates differing in a hashed field differ), so nothing is claimed about the real hash function. The window in which the NodePool still carries the pre-edit hash is outside the claim."),
 "C01": dict(
  technique="bounded symbolic execution (go/ssa -> SMT, z3) of one placement step of the scheduler on the real types: NodeClaim.CanAdd/Add + FinalizeScheduling + InstanceTypes filtering for a new NodeClaim, and NewExistingNode/ExistingNode.CanAdd/Add for an existing or in-flight node; symbolic requests, capacities, overheads, offering availability; independent admissibility oracle",
  text="New NodeClaim: whenever a pod with symbolic cpu/memory requests, an optional zone/capacity-type/custom-label selector, tolerations and host port is accepted onto a NodeClaim of a NodePool with 2 instance types x 2 offerings, every remaining instance type is compatible with the merged requirements, fits requests + daemon overhead, and has an available compatible offering; taints are tolerated and host ports do not clash. Existing node: a pod is accepted only if requests fit what is left after bound pods and the remaining DaemonSet overhead, requirements and taints admit it. Known finding C01-F1 is reported.",
  ref="DESIGN.md §7 C01",
  note="One placement step from a symbolic pre-state (not whole Solve passes): queue ordering, relaxation of preferences, timeouts, volume topology, DRA and minValues are outside. Topology constraints are C02's subject."),
 "C02": dict(
  technique="bounded symbolic execution (go/ssa -> SMT, z3) of TopologyGroup.Get/nextDomainTopologySpread/AntiAffinity/Affinity with symbolic domain counts, and of two placements through the real Topology (AddRequirements/Record) in either order",
  text="One step per topology group from symbolic counts (3 zone domains, counts 0..1000, maxSkew 1..5, optional minDomains): a domain offered for a DoNotSchedule spread keeps the skew within maxSkew against the global minimum (with the minDomains rule), anti-affinity offers only empty domains, affinity only occupied ones (or any for the first self-affine pod). Two pods placed in one pass in either order never end up violating a required anti-affinity in either direction or a zonal spread.",
  ref="DESIGN.md §7 C02",
  note="Hostname topologies, already-running pods loaded from the API (countDomains), namespace selectors, matchLabelKeys and node-affinity/taint policies of spread constraints are outside."),
 "C04": dict(
  technique="bounded symbolic execution (go/ssa -> SMT, z3) of the existing/in-flight node placement step across NodeClaim lifecycle stages and of Cluster.Synced over informer event histories with a ghost API store",
  text="In-flight capacity: for a NodeClaim that is launched / registered / initialized (kubelet reporting allocatable or not yet) a pod is accepted only if it fits the capacity the provider resolved minus bound pods and the DaemonSet overhead still to come, so pending pods that fit in-flight capacity do not open another NodeClaim and capacity is not double-counted. Sync gate: after every history of up to 3 events over {NodeClaim created without provider id, launched, deleted, node marked} on up to 2 NodeClaims, Cluster.Synced is true exactly when every NodeClaim in the API has been launched (has a provider id the state tracks), and nodes marked for deletion are not counted as capacity.",
  ref="DESIGN.md §7 C04",
  note="The provisioner's batching window, the launch call itself (C14) and pods that are bound between the pass and the launch are outside."),
 "C06": dict(
  technique="bounded symbolic execution (go/ssa -> SMT, z3; exact rational arithmetic for prices and the eviction-cost formula) of consolidation.computeConsolidation through the real SimulateScheduling (Provisioner.NewScheduler, Scheduler.Solve, TruncateInstanceTypes) on a real state.Cluster, computeSpotToSpotConsolidation, RemoveInstanceTypeOptionsByPriceAndMinValues, and of NewCandidate/IsEmpty/Emptiness.ShouldDisrupt",
  text="Decision: for one or two candidate nodes (on-demand or spot) with one reschedulable pod of symbolic cpu each, an optional remaining node of symbolic allocatable, a NodePool allowing both capacity types or on-demand only, 3 instance types x {on-demand, spot} with symbolic prices and availability and a symbolic feature gate: whenever a command is produced every pod has exactly one home (the remaining node, where it fits, or the single replacement, whose every launch option it fits), and every available offering the replacement's final requirements admit is strictly cheaper than the summed price of the candidates (this covers the worst-case launch price rule and the spot pin for on-demand nodes); spot-to-spot needs the gate. Single-node spot-to-spot over a catalogue of 16-17 spot types with symbolic prices/availability around the threshold: needs the gate and at least 15 cheaper available alternatives, and the request is capped at 15. Emptiness: with up to 2 pods whose pod-deletion-cost annotation and priority are symbolic integers over their whole ranges, a node is treated as empty exactly when no pod has a positive eviction cost.",
  ref="DESIGN.md §7 C06, §11",
  note="Prices are multiples of 2^-10 in (0,1024] (exact in float64). No PDBs, DaemonSets, volumes, DRA, topology constraints or minValues in the decision harnesses; the multi-node binary search over candidate prefixes, the validation re-simulation (validation.go) and balanced scoring are not covered. Quick tier: with two candidates only the smallest type has symbolic availability, filler types share one price; thorough lifts both."),
 "C18": dict(
  technique="bounded symbolic execution (go/ssa -> SMT, z3) with write-freezing: every heap cell reachable from the live cluster state and the provider's instance-type catalogue is frozen before the simulation steps run, any write to a frozen cell is a violation; observable accessors compared before/after",
  text="Simulation steps on copies (DeepCopyNodes, NewExistingNode, ExistingNode.CanAdd/Add; NodeClaim.CanAdd/Add, FinalizeScheduling, Truncate/OrderByPrice, Results.Record) with symbolic pod requests, capacities and an optional host port: no write reaches a cell of the live cluster state or of the provider's instance types/offerings, and node usage, host-port usage, deletion marks and nominations read the same before and after.",
  ref="DESIGN.md §7 C18",
  note="One tracked node with one bound pod, one pending pod, 2 instance types x 2 offerings. Memoised fields (InstanceType.allocatableOfferings, sync.Once) are computed before freezing. Whole SimulateScheduling passes with API listing are outside."),
 "C20": dict(
  technique="bounded symbolic execution (go/ssa -> SMT, z3) of nodepoolhealth.State/Tracker and ringbuffer.RingBuffer[bool]; symbolic launch outcomes; native replay of models",
  text="All representation states of the 4-slot ring buffer reachable through the public API (k1 updates, optional Reset/SetStatus, k2 updates, all outcomes symbolic) followed by one more operation; threshold, what-if agreement and reset/SetStatus assertions are SMT obligations over the outcomes. The reachable state space is finite and fully covered, so the result holds for histories of any length (DESIGN §7 C20).",
  ref="DESIGN.md §7 C20, Appendix D",
  note="sync.RWMutex modelled sequentially. The NodePool status patch performed by the registration/liveness controllers is outside this check."),
 "C12": dict(
  technique="bounded symbolic execution (go/ssa -> SMT, z3) of scheduling.Requirement/Requirements against a Kubernetes label-selector oracle; label values are atoms with solver-chosen numeric interpretation",
  text="Constructor, Intersection (one step from an arbitrary well-formed representation: closure + point-wise set semantics, commutativity, idempotence, three-operand associativity), HasIntersection (both directions, Skolem witness), Len/Operator, Add and Compatible/Intersects for every operator combination of one or two expressions per key. 'For every label value' is decided by the mentioned atoms plus an unmentioned witness with free integer interpretation (small-model argument, DESIGN §3.3). Known findings C12-F1/F2 are reported, everything else must hold.",
  ref="DESIGN.md §7 C12, §3.3",
  note="Universe of 2 (quick) / 3 (thorough) mentioned label values plus witnesses; operands of numeric operators are integers >= 0 (ValidateRequirement). String() and the error text of Compatible are not checked."),
 "C13": dict(
  technique="bounded symbolic execution (go/ssa -> SMT, z3) of requirement serialisation (NodeSelectorRequirements -> NewNodeSelectorRequirementsWithMinValues), Requirement.Any with math/rand as an arbitrary value within its contract, NodeClaimTemplate.ToNodeClaim for sibling NodeClaims of one batch (NewNodeClaimTemplate, NewNodeClaim, CanAdd/Add, FinalizeScheduling) and InstanceTypes.Truncate/SatisfiesMinValues with symbolic prices",
  text="Serialise/parse round trip from every well-formed in-memory requirement and from every pair of validated expressions admits exactly the same label values and keeps minValues; Any() never panics on validated operands and returns an admitted value. Two sibling NodeClaims of one NodePool turned into launch requests one after the other: written requirements admit key by key what the in-memory ones admit, the instance-type list is the scheduler's option list, requests = pod + minimum daemon overhead of the groups still in play, labels are the template's plus values backed and admitted by the NodeClaim's own requirements (no leakage between siblings or into the template), taints and hash annotation are the template's. Truncation of 3 (4) instance types with symbolic prices to any limit keeps every minValues floor (instance-type and a second key) or fails under the strict policy. Known findings C13-F1 and C13-F3 are reported; C13-F2 (Any panic) was repaired by a fix: commit.",
  ref="DESIGN.md §7 C13",
  note="Label values: 2 (3) atoms plus witnesses; operands of numeric operators are integers >= 0 (ValidateRequirement). The hash value itself is modelled (see C15). Reserved offerings, DRA annotations and the BestEffort minValues policy are outside."),
 "C05": dict(
  technique="bounded symbolic execution (go/ssa -> SMT, z3) of Budget.IsActive/GetAllowedDisruptions, NodePool.GetAllowedDisruptionsByReason and BuildDisruptionBudgetMapping over real state.Cluster objects; symbolic clock, durations, node counts and budget counts; cron schedules modelled by period/offset and validated natively against robfig/cron",
  text="IsActive is compared with the statement's window definition [hit, hit+duration) for six uniform-period schedules at a symbolic instant and duration; the allowed-disruptions value for up to 2 (3) budgets with every combination of count/percent/malformed nodes, schedule none/active-or-not/malformed and five reasons shapes equals the oracle 'most restrictive applicable active budget, malformed = zero'; the per-pool mapping built from a real cluster state of up to 3 (4) nodes equals allowed minus nodes already not ready or being deleted, never negative. C05-F1 (reasons: [] ignored) was repaired by a fix: commit.",
  ref="DESIGN.md §7 C05",
  note="Claims budget arithmetic and the budget mapping (harnesses 1-3 of DESIGN §7 C05). The candidate-selection loops of the five disruption methods, the validators and multi-round composition are not covered by this check. Cron expressions outside the modelled class, apimachinery's float rounding beyond n <= 10^6 are outside."),
 "C16": dict(
  technique="bounded symbolic execution (go/ssa -> SMT, z3) of the whole Reconcile bodies of the expiration, garbage-collection, liveness and node-health controllers against a fault-injecting API client / cloud provider / clock model; the assertion sits at the Delete call",
  text="Every explored execution that reaches a NodeClaim Delete satisfies the documented trigger: expiry enabled and now >= creation+expireAfter; provider list succeeded without the instance, NodeClaim registered and not deleting, Node lookup succeeded with no Ready node; launch (5m) / registration (15m) timeout passed; an unhealthy condition lasted its own policy's toleration and at most ceil(20%) of up to 5 pool nodes are unhealthy. Clock instants, durations and tolerations are symbolic; each API/provider call may fail. C16-F1 (GC deleted after a failed Node lookup) was repaired by a fix: commit.",
  ref="DESIGN.md §7 C16, §4, Appendix D",
  note="One reconcile per run; <= 2 NodeClaims (GC), <= 5 nodes and 2 repair policies (health). Informer predicates, requeue timing and metrics are outside. Liveness assumes Launched and Registered conditions are present (set by the sub-reconcilers that run before it)."),
 "C03": dict(
  technique="bounded symbolic execution (go/ssa -> SMT, z3): public-API histories of state.NodePoolState with ghost state, and one inductive step of the scheduler's limit accounting (filterByRemainingResources/subtractMax) with symbolic quantities",
  text="All histories of up to 4 (5) operations over {NodeClaim seen (marked or not), pending disruption, NodeClaim gone, reserve, release} on one static pool with two NodeClaim names and symbolic limits/counts: no crash, GetNodeCount equals the existing NodeClaims per state, every grant keeps existing + outstanding <= limit. One step of a scheduling pass from an arbitrary remaining-limits state over {cpu, memory, nodes}: no launch option of a newly opened NodeClaim exceeds the remaining limit and the carried remainder subtracts at least what the launched node consumes. C03-F1/F2/F3 were repaired by fix: commits.",
  ref="DESIGN.md §7 C03, Appendix D",
  note="Sequential model of NodePoolState (one mutex around every public method). 'Settles at the replica count' (liveness) and the reconcile loops of the static provisioning/deprovisioning controllers are not covered."),
 "C19": dict(
  technique="bounded symbolic execution (go/ssa -> SMT, z3; FloatingPoint prices) of InstanceTypes.Truncate/OrderByPrice and nodepool.OrderByWeight with sort.Slice modelled as a sort calling the real comparator",
  text="For up to 3 instance types with symbolic float prices, availability and compatibility per offering and every maxItems: the truncated list is a duplicate-free subset of the right length and no dropped type has a cheaper compatible available offering than a kept one. For up to 4 NodePools with symbolic int32 weights: the result is a permutation, weights are non-increasing and ties are ordered by name.",
  ref="DESIGN.md §7 C19",
  note="Claims harnesses 1 and 3 of DESIGN §7 C19. The template loop of Scheduler.addToNewNodeClaim under parallel evaluation (lowest feasible index wins) is not covered by this check."),
 "C17": dict(
  technique="bounded symbolic execution (go/ssa -> SMT, z3) of ReservationManager, NodeClaim.offeringsToReserve, NodeClaim.Add and FinalizeScheduling over histories of evaluate[/commit] steps with symbolic reservation capacities and ghost holder sets",
  text="Histories of 3 (4) steps over 3 in-flight NodeClaims, 2 reservation ids shared by 2 instance types (one with a stale larger capacity), three requirement sets, both reserved-offering modes: evaluating a placement never changes reservations; only compatible available reserved offerings that the NodeClaim holds or that have capacity left are selected; strict mode defers exactly when compatible reserved capacity exists but nothing can be reserved; after every commit holders <= capacity and remaining = capacity - holders; finalisation pins holders to reserved capacity with exactly their reservation ids.",
  ref="DESIGN.md §7 C17",
  note="Claims the capacity-reservation half. The DRA half (exclusive devices, shared capacity and counters: Allocator.Allocate and the allocation tracker) is not covered by this check."),
 "C10": dict(
  technique="bounded symbolic execution (go/ssa -> SMT, z3) of terminator.Queue.{Add,Reconcile,evict,forceDelete}, needsForceDelete and Terminator.Drain against the API-client model; symbolic clock, deadlines, grace periods and do-not-disrupt durations",
  text="One queue reconcile of a pod with every combination of phase, terminating state, grace period, do-not-disrupt value (absent/true/duration/garbage), toleration and static ownership under a nil or symbolic node deadline with eviction and delete faults: removals happen only through the eviction subresource (active, non-tolerating, non-static pods without active do-not-disrupt) or through a Delete with grace >= 1 s, only under a deadline and no earlier than deadline minus the pod's own grace period. Re-adding a pod keeps the earlier deadline. A drain pass over up to 3 pods queues past-deadline pods of any tier and graceful candidates of the first non-empty tier only, and reports completion exactly when nothing drainable is left.",
  ref="DESIGN.md §7 C10",
  note="The API server's PDB enforcement, the informer/channel plumbing of the queue and interleavings of several drain passes with several queue reconciles are outside."),
 "C07": dict(
  technique="bounded symbolic execution (go/ssa -> SMT, z3) of disruption.NewCandidate, the five ShouldDisrupt predicates, StateNode.Validate*, pod/PDB predicates over a real cluster state, and of the Consolidatable sub-controller with symbolic clock, durations and timestamps",
  text="One node built through the informer entry points with every node-level blocker (unmanaged, uninitialized, marked, nominated, annotated, already queued), every pod-level blocker shape (do-not-disrupt true / duration relative to a symbolic start time / on a terminal pod, blocking or allowing PDB), terminationGracePeriod, static/dynamic pool, consolidateAfter, policy, Consolidatable/Drifted conditions and buffer pods, for each of the five methods: a node is selected only if no blocker applies, pod-level blockers are overridden only by drift with a terminationGracePeriod, and the consolidation-specific conditions hold. The Consolidatable condition after one reconcile equals 'enabled and initialized and consolidateAfter elapsed since the last pod event' for symbolic instants and any previous condition.",
  ref="DESIGN.md §7 C07",
  note="One node, at most one pod and one PDB; quick tier sweeps node-level blockers, pod-level blockers and consolidation settings separately, thorough takes the full product. Staleness of the Consolidatable condition between the two controllers and label-selector matching internals are outside."),
 "C08": dict(
  technique="bounded symbolic execution (go/ssa -> SMT, z3) of disruption.Queue.{Reconcile,waitOrTerminate,CompleteCommand,StartCommand(refusal)} with the rollback helpers over real cluster state, against the API-client model with lagging reads and faults; symbolic command age and poll spacing",
  text="A replace command (one candidate, one replacement) polled up to 2 (3) times: reads of the replacement may lag or fail, deletes may fail, the replacement may become Initialized or vanish between polls, the command's age is symbolic. Every candidate Delete happens only after the API has shown the replacement Initialized; an action that ends failed issued no Delete, unmarks the node and removes taint and DisruptionReason condition when those calls succeed; a second command on a queued node is refused. Known finding C08-F1 (time-out wrap after a successful delete) is reported.",
  ref="DESIGN.md §7 C08",
  note="StartCommand's replacement creation (the real provisioner) and controller restarts are not covered. retry.OnError makes as many attempts as its backoff has steps, without sleeping."),
 "C09": dict(
  technique="bounded symbolic execution (go/ssa -> SMT, z3) of node/termination.Controller.finalize (with the real Terminator and eviction queue) and nodeclaim/lifecycle.Controller (launch ... finalize) over consecutive reconciles against API-client and provider models with faults and environment events; the assertion sits at the write that drops the finalizer",
  text="Node: up to 3 (4) reconciles from fresh and mid-termination start states with pods finishing, late pods being bound and volumes detaching in between, symbolic clock start and deadline: the finalizer goes only after the taint is on, no drainable pod is left, volume attachments are gone or the deadline passed, and the provider reports the instance gone; or at once for a not-ready node whose instance is gone. NodeClaim: up to 3 (4) reconciles with write and provider faults, user deletion and node registration events: the finalizer goes only after the Nodes are gone (if registered) and the provider reports the instance not found (if ever launched, by ghost state). Known finding C09-F1 (orphan after a failed status patch) is reported.",
  ref="DESIGN.md §7 C09",
  note="Pod-level drain is C10's subject (pods leave through environment events here). Volume-attachment filtering by undrainable pods and apiserver finalizer semantics beyond 'object disappears with its last finalizer' are outside."),
 "C11": dict(
  technique="bounded symbolic execution (go/ssa -> SMT, z3) of state.Cluster's informer entry points over event histories with a ghost API store; symbolic pod requests and capacities; final state compared accessor by accessor with a fresh Cluster",
  text="All histories of up to 3 (4) events over {NodeClaim delivered, Node delivered, pod created/recreated under the same name, pod deleted, node marked/unmarked} on one NodeClaim, one Node and two pod names; failed deliveries are retried; then PodRequests, DaemonSetRequests, Capacity, DisruptionCost, host-port conflicts, NodePool totals and node counts equal those of a fresh Cluster fed the final store. C11-F1 (disruption costs lost on NodeClaim update) was repaired by a fix: commit.",
  ref="DESIGN.md §7 C11",
  note="No inductive invariant is claimed beyond the history bound. DaemonSet cache, volume usage with PVCs, pod scheduling-time maps, provider-id changes and stale (out-of-date) deliveries are not covered by this check."),
 "C14": dict(
  technique="bounded symbolic execution (go/ssa -> SMT, z3) of nodeclaim/lifecycle.Controller.Reconcile (launch, registration, initialization, liveness) over consecutive reconciles against API-client and provider models with write/provider faults and node events; ghost Create counter",
  text="Up to 3 (4) reconciles of one NodeClaim, every NodeClaim write and provider Create may fail, the node may appear and become ready in between, the clock advances symbolically: a successful provider Create happens at most once and only when the stored NodeClaim carries the finalizer; Launched/Registered/Initialized are true only in that order and only with instance created / node present, synced and untainted / node Ready; insufficient-capacity and nodeclass-not-ready errors delete the NodeClaim, other errors keep it.",
  ref="DESIGN.md §7 C14",
  note="Launch cache modelled as a map without expiry (claim holds within the 1 h TTL, no controller restart). No registration hooks, DRA ignored. Quick tier: write faults are generic errors or NotFound; conflicts in the thorough tier."),
}

REASON_WIP = "no check registered yet in this revision (the technique applies, see DESIGN.md §7; the harness is still to be built)"

def main():
    props = [json.loads(l) for l in open("/verif/properties.jsonl")]
    checks, na = [], []
    for p in props:
        pid = p["id"]
        c = CHECKS.get(pid)
        if not c or not os.path.isdir(f"/verif/harness/{pid}"):
            na.append({"property_id": pid, "reason": NA.get(pid, REASON_WIP)})
            continue
        checks.append({
            "property_id": pid,
            "quick_cmd": f"bin/check {pid} --tier quick",
            "thorough_cmd": f"bin/check {pid} --tier thorough",
            "evidence_file": f"/verif/evidence/{pid}.json",
            "replay_cmd_template": "bin/check --replay {path}",
            "engine": "symgo",
            "technique": c["technique"],
            "level_claimed": {"category": "model_checking", "text": c["text"], "design_ref": c["ref"]},
            "level_note": TRUST + c["note"],
        })
    m = {
        "version": 1,
        "setup_cmd": "make -C /verif setup",
        "hooks": {
            "guard": "verif",
            "enable": "no hooks are committed to /repo: harness files (//go:build verif) and the verifrt runtime enter the build by go/packages Overlay (symbolic run) and by `go test -tags verif -overlay` (native replay)",
            "baseline_off_cmd": "cd /repo && go test -mod=mod -json -vet=off -count=1 -timeout 25m ./...",
            "source_commits": [],
            "add_only": True,
        },
        "engines": [{
            "name": "symgo", "path": "/verif/engine", "serves_properties": [c["property_id"] for c in checks],
            "kind_free_text": "bounded symbolic executor for Go written for this task: fork of x/tools go/ssa/interp with symbolic scalars (SMT Int with exact wrap-around, FloatingPoint, Bool), stateless path search by re-execution with decision prefixes, pure-callee summaries, z3 over a pipe with push/pop, native replay of solver models through `go test -overlay`",
        }],
        "checks": checks,
        "not_applicable": na,
        "notes": "Exit codes of every check: 0 held within the bounds (known findings printed as KNOWN-FINDING), 1 VIOLATION (replay-confirmed), 2 INCONCLUSIVE (never reported as success). See DESIGN.md.",
    }
    json.dump(m, open("/verif/MANIFEST.json", "w"), indent=1)
    print(len(checks), "checks,", len(na), "not applicable")

NA = {}
main()
