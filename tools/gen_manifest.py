#!/usr/bin/env python3
"""Generates /verif/MANIFEST.json from the table below (one entry per claimed property)."""
import json, os

TRUST = ("Trusted base: go/ssa (x/tools v0.50.0), the forked ssa/interp core and the intrinsic/stub catalogue of DESIGN Appendix B "
         "(every run replays solver models of explored paths against the real build and reports a disagreement as INCONCLUSIVE), z3 4.8.12. "
         "Bounds are those printed in the evidence file; anything outside them is not claimed. ")

CHECKS = {
 "C20": dict(
  technique="bounded symbolic execution (go/ssa -> SMT, z3) of nodepoolhealth.State/Tracker and ringbuffer.RingBuffer[bool]; symbolic launch outcomes; native replay of models",
  text="All representation states of the 4-slot ring buffer reachable through the public API (k1 updates, optional Reset/SetStatus, k2 updates, all outcomes symbolic) followed by one more operation; threshold, what-if agreement and reset/SetStatus assertions are SMT obligations over the outcomes. The reachable state space is finite and fully covered, so the result holds for histories of any length (DESIGN §7 C20).",
  ref="DESIGN.md §7 C20, Appendix D",
  note="sync.RWMutex modelled sequentially. The NodePool status patch performed by the registration/liveness controllers is outside this check."),
 "C12": dict(
  technique="bounded symbolic execution (go/ssa -> SMT, z3) of scheduling.Requirement/Requirements against a Kubernetes label-selector oracle; label values are atoms with solver-chosen numeric interpretation",
  text="Constructor, Intersection (one step from an arbitrary well-formed representation: closure + point-wise set semantics, commutativity, idempotence, three-operand associativity), HasIntersection (both directions, Skolem witness), Len/Operator, Add and Compatible/Intersects for every operator combination of one or two expressions per key. 'For every label value' is decided by the mentioned atoms plus an unmentioned witness with free integer interpretation (small-model argument, DESIGN §3.3). Known findings C12-F1/F2 are reported, everything else must hold.",
  ref="DESIGN.md §7 C12, §3.3",
  note="Universe of 2 (quick) / 3 (thorough) mentioned label values plus witnesses; operands of numeric operators are integers >= 0 (ValidateRequirement). String() and the error text of Compatible are not checked."),
 "C13": dict(
  technique="bounded symbolic execution (go/ssa -> SMT, z3) of requirement serialisation (NodeSelectorRequirements -> NewNodeSelectorRequirementsWithMinValues) and Requirement.Any with math/rand as an arbitrary value within its contract",
  text="Serialise/parse round trip from every well-formed in-memory requirement and from every pair of validated expressions admits exactly the same label values and keeps minValues; Any() never panics on validated operands and returns an admitted value. Known findings C13-F1 (exclusion list dropped next to a bound) and C13-F3 (Any ignores exclusions) are reported; C13-F2 (Any panic) was repaired by a fix: commit.",
  ref="DESIGN.md §7 C13",
  note="Claims the requirements half of the property (harnesses 1-2 of DESIGN §7 C13). Instance-type truncation, resource requests and template labels/hash are not covered yet by this check."),
}

REASON_WIP = "no check registered yet in this revision (the technique applies, see DESIGN.md §7; the harness is still to be built)"

def main():
    props = [json.loads(l) for l in open("/verif/properties.jsonl")]
    checks, na = [], []
    for p in props:
        pid = p["id"]
        c = CHECKS.get(pid)
        if not c or not os.path.isdir(f"/verif/harness/{pid}"):
            na.append({"property_id": pid, "reason": NA.get(pid, REASON_WIP)})
            continue
        checks.append({
            "property_id": pid,
            "quick_cmd": f"bin/check {pid} --tier quick",
            "thorough_cmd": f"bin/check {pid} --tier thorough",
            "evidence_file": f"/verif/evidence/{pid}.json",
            "replay_cmd_template": "bin/check --replay {path}",
            "engine": "symgo",
            "technique": c["technique"],
            "level_claimed": {"category": "model_checking", "text": c["text"], "design_ref": c["ref"]},
            "level_note": TRUST + c["note"],
        })
    m = {
        "version": 1,
        "setup_cmd": "make -C /verif setup",
        "hooks": {
            "guard": "verif",
            "enable": "no hooks are committed to /repo: harness files (//go:build verif) and the verifrt runtime enter the build by go/packages Overlay (symbolic run) and by `go test -tags verif -overlay` (native replay)",
            "baseline_off_cmd": "cd /repo && go test -mod=mod -json -vet=off -count=1 -timeout 25m ./...",
            "source_commits": [],
            "add_only": True,
        },
        "engines": [{
            "name": "symgo", "path": "/verif/engine", "serves_properties": [c["property_id"] for c in checks],
            "kind_free_text": "bounded symbolic executor for Go written for this task: fork of x/tools go/ssa/interp with symbolic scalars (SMT Int with exact wrap-around, FloatingPoint, Bool), stateless path search by re-execution with decision prefixes, pure-callee summaries, z3 over a pipe with push/pop, native replay of solver models through `go test -overlay`",
        }],
        "checks": checks,
        "not_applicable": na,
        "notes": "Exit codes of every check: 0 held within the bounds (known findings printed as KNOWN-FINDING), 1 VIOLATION (replay-confirmed), 2 INCONCLUSIVE (never reported as success). See DESIGN.md.",
    }
    json.dump(m, open("/verif/MANIFEST.json", "w"), indent=1)
    print(len(checks), "checks,", len(na), "not applicable")

NA = {}
main()
