#!/bin/bash
# runs every kept seeded change against its property's registered quick check; prints one line per seed
cd /verif
for d in seeded/C*; do
  n=$(basename $d); id=${n:0:3}
  out=$(timeout 1500 ./tools/try_seed.sh /verif/$d $id 2>&1)
  rc=$(echo "$out" | grep -o "try_seed: exit=[0-9]*" | tail -1)
  h=$(echo "$out" | grep -o "harness=Verif[A-Za-z0-9_]*" | sort -u | tr '\n' ' ')
  echo "$n $rc $h"
done
